------------------------------ MODULE MCPrinter ------------------------------
(* C16 on the specification: Read(PrintV(v)) = v and Print is injective, for every value tree of a
   bounded universe; each value is printed for replay on the real printer and reader. *)
EXTENDS Printer, Json, TLC

CONSTANT Full

I(n) == [t |-> "int", v |-> n]
Sy(cs) == [t |-> "sym", cs |-> cs]
Atoms == {[t |-> "bool", b |-> TRUE], [t |-> "bool", b |-> FALSE], I(0), I(-7), I(2147483647), I(-2147483647 - 1),
          [t |-> "rat", n |-> 1, d |-> 2], [t |-> "rat", n |-> -3, d |-> 4], [t |-> "rat", n |-> -2147483647 - 1, d |-> 3],
          [t |-> "rat", n |-> 2147483647, d |-> 2147483646], [t |-> "char", c |-> 97], [t |-> "char", c |-> 40], [t |-> "char", c |-> 32],
          Sy(<<97>>), Sy(<<43>>), Sy(<<45, 62, 120>>), QuoteSym, [t |-> "nil"], [t |-> "vec", xs |-> <<>>]}
\* the symbol quote is an element like any other: (quote), (quote a b), (quote . a), (a quote b) are lists, not abbreviations
FewAtoms == {[t |-> "bool", b |-> FALSE], I(-7), [t |-> "rat", n |-> 1, d |-> 2], QuoteSym, [t |-> "nil"]}
Seqs(S, n) == UNION {[1..k -> S] : k \in 0..n}
ListsOver(S, n, tails) == {ListOf(sq, tl) : sq \in Seqs(S, n) \ {<<>>}, tl \in tails} \cup {[t |-> "nil"]}
VecsOver(S, n) == {[t |-> "vec", xs |-> sq] : sq \in Seqs(S, n)}
Level1 == Atoms \cup ListsOver(Atoms, 2, {[t |-> "nil"]} \cup (Atoms \ {[t |-> "nil"]})) \cup VecsOver(Atoms, 2)
Small1 == FewAtoms \cup ListsOver(FewAtoms, 2, {[t |-> "nil"], I(-7)}) \cup VecsOver(FewAtoms, 2)
\* (thorough: also every list of three elements over the atoms and their one-element lists / vectors)
Small0 == FewAtoms \cup ListsOver(FewAtoms, 1, {[t |-> "nil"], I(-7)}) \cup VecsOver(FewAtoms, 1)
Level2 == ListsOver(Small1, 2, {[t |-> "nil"], I(-7)}) \cup VecsOver(Small1, 2)
          \cup (IF Full THEN ListsOver(Small0, 3, {[t |-> "nil"], I(-7)}) \cup VecsOver(Small0, 3) ELSE {})
Universe == Level1 \cup Level2

VARIABLES v, phase
Init == v \in Universe /\ phase = 0
Next == phase = 0 /\ phase' = 1 /\ UNCHANGED v
\* printed text reads back as the same value
RoundTrip == phase = 1 => ReadText(PrintV(v)) = v
Emit == phase = 1 => PrintT(<<"VEC", ToJson([value |-> v, text |-> PrintV(v)])>>)
=============================================================================
