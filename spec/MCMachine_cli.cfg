CONSTANTS
  GC = FALSE
  Broken = "none"
  Family = "cli"
  MaxKont = 12
SPECIFICATION Spec
INVARIANT CliLaw
INVARIANT KontBounded
INVARIANT Emit
CHECK_DEADLOCK FALSE
