CONSTANTS
  GC = FALSE
  Broken = "none"
  Family = "lists-full"
  MaxKont = 16
SPECIFICATION Spec
INVARIANT ListLaw
INVARIANT KontBounded
INVARIANT Emit
CHECK_DEADLOCK FALSE
