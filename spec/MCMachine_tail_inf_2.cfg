CONSTANTS
  GC = TRUE
  Broken = "none"
  Family = "tail-inf-2"
  MaxKont = 4
SPECIFICATION Spec
INVARIANT KontBounded
CHECK_DEADLOCK FALSE
