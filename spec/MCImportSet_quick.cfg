CONSTANTS
  Exports = {"a", "b", "c"}
  Fresh = {"x", "y"}
  PrefixSet = {"p-", "a"}
  Depth = 2
  MaxRename = 2
  PairDepth = 1
  Variant = "r7rs"
SPECIFICATION Spec
INVARIANT Laws
INVARIANT Emit
CHECK_DEADLOCK FALSE
