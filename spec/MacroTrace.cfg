INIT Init
NEXT Next
INVARIANT Done
CHECK_DEADLOCK FALSE
