------------------------------- MODULE Printer -------------------------------
(***************************************************************************)
(* External representation of the readable values (R7RS 6.13.3 display,    *)
(* for values without strings): PrintV(v) is a text - a sequence of code    *)
(* points.  Lists are written with single spaces and a dotted tail only    *)
(* when improper.  Values are in the Reader's datum shape; reals are not   *)
(* printed by the specification (their spelling is the implementation's;   *)
(* PrinterTrace checks that it reads back to the same bits).               *)
(***************************************************************************)
EXTENDS Reader

RECURSIVE DigitsOfNat(_)
DigitsOfNat(n) == IF n < 10 THEN <<48 + n>> ELSE DigitsOfNat(n \div 10) \o <<48 + (n % 10)>>
PrintInt(n) == IF n >= 0 THEN DigitsOfNat(n)
               ELSE IF n = -2147483647 - 1 THEN <<MINUS>> \o MaxNeg
               ELSE <<MINUS>> \o DigitsOfNat(-n)
RECURSIVE JoinSp(_)
JoinSp(ss) == IF ss = <<>> THEN <<>> ELSE IF Len(ss) = 1 THEN ss[1] ELSE ss[1] \o <<SP>> \o JoinSp(Tail(ss))

RECURSIVE PrintV(_), PrintTail(_)
PrintV(v) ==
  CASE v.t = "bool" -> IF v.b THEN <<HASH, 116>> ELSE <<HASH, 102>>
    [] v.t = "int"  -> PrintInt(v.v)
    [] v.t = "rat"  -> PrintInt(v.n) \o <<SLASH>> \o PrintInt(v.d)
    [] v.t = "char" -> <<HASH, BSLASH, v.c>>
    [] v.t = "sym"  -> v.cs
    [] v.t = "nil"  -> <<LPAREN, RPAREN>>
    [] v.t = "vec"  -> <<HASH, LPAREN>> \o JoinSp([i \in DOMAIN v.xs |-> PrintV(v.xs[i])]) \o <<RPAREN>>
    [] v.t = "pair" -> <<LPAREN>> \o PrintV(v.a) \o PrintTail(v.d) \o <<RPAREN>>
PrintTail(d) ==
  CASE d.t = "nil"  -> <<>>
    [] d.t = "pair" -> <<SP>> \o PrintV(d.a) \o PrintTail(d.d)
    [] OTHER        -> <<SP, DOT, SP>> \o PrintV(d)

\* the specification's reader applied to a text: the single datum it denotes, or a failure marker
ReadText(text) == LET L == Lex(text) IN
  IF L.k # "tokens" THEN [t |-> "unreadable"]
  ELSE LET R == ReadAll(L.toks) IN IF R.k = "data" /\ Len(R.ds) = 1 THEN R.ds[1] ELSE [t |-> "unreadable"]

\* canonical layout of a token sequence: single spaces, none after an opening token or before a closing parenthesis
TokText(tok) ==
  CASE tok.t = "lp" -> <<LPAREN>> [] tok.t = "rp" -> <<RPAREN>> [] tok.t = "vecopen" -> <<HASH, LPAREN>>
    [] tok.t = "quote" -> <<QUOTE>> [] tok.t = "dot" -> <<DOT>> [] OTHER -> <<>>
Opening(tok) == tok.t \in {"lp", "vecopen", "quote"}
=============================================================================
