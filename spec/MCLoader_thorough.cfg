CONSTANTS
  Libs = {1, 2, 3}
  NoLib = 0
  MaxAttempts = 3
  AsImplemented = FALSE
  FaultKinds = {"fault", "missing", "wrongname", "malformed", "notutf8"}
  MaxFaulty = 1
  Orders = "asc"
SPECIFICATION Spec
INVARIANT TypeOK
INVARIANT NoStaleMark
INVARIANT OutcomeIsFunctionOfGraph
INVARIANT OutcomeAllowed
INVARIANT BoundedNesting
INVARIANT Emit
CHECK_DEADLOCK FALSE
