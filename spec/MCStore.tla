------------------------------- MODULE MCStore -------------------------------
(* C03: every history of store operations up to MaxLen.  Each operation of the abstract model
   (Store.tla) is performed on the reference machine (Machine.tla) by evaluating its form; the
   refinement invariant says the machine yields what the abstract model predicts - value of the
   operation, contents of every vector variable, and the alias partition.  Each complete history is
   printed for replay on the real interpreter. *)
EXTENDS Store, Machine, Json

CONSTANTS MaxLen, Emitting
VecOrder2 == <<"v1", "v2">>
VecOrder3 == <<"v1", "v2", "v3">>

RECURSIVE RunSteps(_, _)
RunSteps(s, fuel) == IF s.status = "done" \/ fuel = 0 THEN s ELSE RunSteps(Step(s), fuel - 1)
RunForm(s, form) == RunSteps(Submit(s, form), 400)
RECURSIVE RunAll(_, _, _)
RunAll(s, forms, i) == IF i > Len(forms) THEN s ELSE RunAll(RunForm(s, forms[i]), forms, i + 1)

VARIABLES st, m, hist, ok
vars == <<st, m, hist, ok>>

Init == st = EmptyStore /\ m = RunAll(InitState, Prelude, 1) /\ hist = <<>> /\ ok = TRUE

OutcomeMatches(e, r) ==
  CASE e.k = "none"  -> r.k = "none"
    [] e.k = "value" -> r.k = "value" /\ Match(e.v, r.v)
    [] e.k = "error" -> r = e
SamePartition(a, b) == Len(a) = Len(b) /\ \A i, j \in DOMAIN a : (a[i] = a[j]) <=> (b[i] = b[j])
\* top-level vector ids of the probe result (list v1 v2 ...): one id per listed variable
TopIds(v) == [i \in DOMAIN Elems(v) |-> Elems(v)[i].id]

Do(a) ==
  /\ Len(hist) < MaxLen
  /\ LET m1 == RunForm(m, Form(st, a))
         st1 == Effect(st, a)
         m2 == RunForm(m1, ProbeForm(st1))
     IN /\ st' = st1
        /\ m' = m2
        /\ ok' = /\ m1.status = "done" /\ m2.status = "done"
                 /\ OutcomeMatches(Result(st, a), m1.result)
                 /\ m2.result.k = "value" /\ Match(ProbeContents(st1), m2.result.v)
                 /\ SamePartition(ProbeAliases(st1), TopIds(m2.ctrl.v))
        /\ hist' = Append(hist, [op |-> a, form |-> Form(st, a), expect |-> Result(st, a),
                                 probe |-> ProbeForm(st1), contents |-> ProbeContents(st1), aliases |-> ProbeAliases(st1)])

Next == \E a \in Ops(st) : Do(a)
Spec == Init /\ [][Next]_vars

\* the reference machine refines the abstract store model
Refinement == ok

\* statements of C03 on the abstract model itself
\* distinct vector objects never change together; aliases always agree (by construction of ref -> obj);
\* a literal's contents never change
LiteralsFrozen == \A o \in DOMAIN st.obj : ~st.obj[o].mut => st.obj[o].xs = <<7, 8>>
CountersIndependent == \A c \in DOMAIN st.cnt : st.cnt[c] <= Len(hist)

Emit == (Emitting /\ Len(hist) = MaxLen) => PrintT(<<"VEC", ToJson([prelude |-> Prelude, hist |-> hist])>>)
=============================================================================
