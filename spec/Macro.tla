-------------------------------- MODULE Macro --------------------------------
(***************************************************************************)
(* syntax-rules (R7RS 4.3.2) on the class Ruschm's expander supports:      *)
(* the keyword spelled out in each pattern; proper-list and vector         *)
(* patterns nested to any depth; at most one ellipsis per (sub)list, in    *)
(* final position; ellipsis depth 1 (list sub-patterns allowed under it);  *)
(* one or more items per ellipsis; ellipsis sub-templates mention only     *)
(* ellipsis variables.  Data are Data.tla values (quoted data; vector      *)
(* literals [t |-> "vlit", xs]).                                           *)
(*   PMatch(p, f, lits)  -> [ok |-> BOOLEAN, one |-> var -> datum, many |-> var -> <<datum...>>] *)
(*   Expand(t, m)       -> datum                                           *)
(*   Transform(rules, args, lits) -> [k |-> "ok", d] | [k |-> "nomatch"]   *)
(* rules: sequence of [pat |-> list of argument patterns (the keyword left out), tmpl |-> template] *)
(***************************************************************************)
EXTENDS Data

Ellipsis == MkSym("...")
Underscore == MkSym("_")
IsSym(d) == d.t = "sym"
IsAtomDatum(d) == d.t \in {"int", "rat", "bool", "char", "str"}
NoBind == [ok |-> TRUE, one |-> <<>>, many |-> <<>>]
Fail == [ok |-> FALSE, one |-> <<>>, many |-> <<>>]
Merge(a, b) == IF a.ok /\ b.ok THEN [ok |-> TRUE, one |-> a.one @@ b.one, many |-> a.many @@ b.many] ELSE Fail
SeqOf(d) == IF d.t = "vlit" THEN d.xs ELSE Elems(d)
HasEllipsis(ps) == Len(ps) >= 2 /\ ps[Len(ps)] = Ellipsis

RECURSIVE PMatch(_, _, _), MatchSeq(_, _, _, _), MatchAll(_, _, _)
\* every item of fs against the single pattern p: variables of p collect one datum per item
MatchAll(p, fs, lits) ==
  IF fs = <<>> THEN NoBind
  ELSE LET h == PMatch(p, fs[1], lits)
           r == MatchAll(p, Tail(fs), lits)
       IN IF ~h.ok \/ ~r.ok THEN Fail
          ELSE [ok |-> TRUE, one |-> <<>>,
                many |-> [v \in DOMAIN h.one |-> <<h.one[v]>> \o (IF v \in DOMAIN r.many THEN r.many[v] ELSE <<>>)]]
\* element-wise, positions i.. of equally long sequences
MatchSeq(ps, fs, i, lits) ==
  IF i > Len(ps) THEN NoBind ELSE Merge(PMatch(ps[i], fs[i], lits), MatchSeq(ps, fs, i + 1, lits))
MatchList(ps, fs, lits) ==
  IF HasEllipsis(ps)
  THEN LET n == Len(ps) - 2 IN         \* fixed prefix, then one or more items for the pattern before the ellipsis
       IF Len(fs) < n + 1 THEN Fail
       ELSE Merge(MatchSeq(SubSeq(ps, 1, n), SubSeq(fs, 1, n), 1, lits),
                  MatchAll(ps[n + 1], SubSeq(fs, n + 1, Len(fs)), lits))
  ELSE IF Len(ps) # Len(fs) THEN Fail ELSE MatchSeq(ps, fs, 1, lits)
PMatch(p, f, lits) ==
  IF IsSym(p) THEN
       (IF p = Underscore THEN NoBind
        ELSE IF p.x \in lits THEN (IF f = p THEN NoBind ELSE Fail)           \* a literal identifier matches only itself
        ELSE [ok |-> TRUE, one |-> (p.x :> f), many |-> <<>>])                \* a pattern variable matches any form
  ELSE IF IsAtomDatum(p) THEN (IF IsAtomDatum(f) /\ f = p THEN NoBind ELSE Fail)    \* literal data match only equal data
  ELSE IF p.t \in {"pair", "nil"} THEN
       (IF ~(f.t \in {"pair", "nil"}) \/ ~IsList(f) THEN Fail ELSE MatchList(Elems(p), Elems(f), lits))
  ELSE IF p.t = "vlit" THEN (IF f.t # "vlit" THEN Fail ELSE MatchList(p.xs, f.xs, lits))
  ELSE Fail

\* ---- templates
RECURSIVE VarsOf(_)
VarsOf(t) == IF IsSym(t) THEN {t.x}
             ELSE IF t.t = "pair" THEN VarsOf(t.a) \cup VarsOf(t.d)
             ELSE IF t.t = "vlit" THEN UNION {VarsOf(t.xs[i]) : i \in DOMAIN t.xs} ELSE {}
RECURSIVE Expand(_, _), ExpandSeq(_, _, _), ExpandItem(_, _, _)
\* the k-th copy of an ellipsis sub-template: ellipsis variables stand for their k-th match
ExpandItem(t, m, k) ==
  IF IsSym(t) THEN (IF t.x \in DOMAIN m.many THEN m.many[t.x][k] ELSE IF t.x \in DOMAIN m.one THEN m.one[t.x] ELSE t)
  ELSE IF t.t = "pair" THEN Cons(ExpandItem(t.a, m, k), ExpandItem(t.d, m, k))
  ELSE IF t.t = "vlit" THEN [t |-> "vlit", xs |-> [i \in DOMAIN t.xs |-> ExpandItem(t.xs[i], m, k)]]
  ELSE t
Repeats(t, m) == LET vs == VarsOf(t) \cap DOMAIN m.many IN
                 IF vs = {} THEN 0 ELSE Len(m.many[CHOOSE v \in vs : TRUE])
ExpandSeq(ts, m, i) ==
  IF i > Len(ts) THEN <<>>
  ELSE IF i < Len(ts) /\ ts[i + 1] = Ellipsis
       THEN [k \in 1..Repeats(ts[i], m) |-> ExpandItem(ts[i], m, k)] \o ExpandSeq(ts, m, i + 2)   \* once per matched item, in order
       ELSE <<Expand(ts[i], m)>> \o ExpandSeq(ts, m, i + 1)
Expand(t, m) ==
  IF IsSym(t) THEN (IF t.x \in DOMAIN m.one THEN m.one[t.x] ELSE t)
  ELSE IF t.t = "pair" THEN ListFromSeq(ExpandSeq(Elems(t), m, 1), IF LastCdr(t).t = "nil" THEN Nil ELSE Expand(LastCdr(t), m))
  ELSE IF t.t = "vlit" THEN [t |-> "vlit", xs |-> ExpandSeq(t.xs, m, 1)]
  ELSE t

RECURSIVE FirstMatch(_, _, _, _)
FirstMatch(rules, args, lits, i) ==      \* least index whose pattern matches, or 0
  IF i > Len(rules) THEN 0
  ELSE IF MatchList(rules[i].pat, args, lits).ok THEN i ELSE FirstMatch(rules, args, lits, i + 1)
Transform(rules, args, lits) ==
  LET i == FirstMatch(rules, args, lits, 1) IN
  IF i = 0 THEN [k |-> "nomatch"]        \* a syntax error, never a silent mis-expansion
  ELSE [k |-> "ok", rule |-> i, d |-> Expand(rules[i].tmpl, MatchList(rules[i].pat, args, lits))]
=============================================================================
