------------------------------- MODULE LocTrace -------------------------------
(* Trace validation for C15.  Events {"text":[cp...],"form":[l1,c1,l2,c2],"site":[..]|[],"loc":[l,c]|[],"via":"api"|"cli"}
   and, for syntax errors, {"text","limit":[l,c] (last character of the offending token),"loc","via":"api-syntax"|"cli-syntax"} *)
EXTENDS Locations, Json, IOUtils, TLC
Rec == ndJsonDeserialize(IOEnv.TRACE)
\* a syntax error: if it carries a location, the location is at or before the offending token (whose last character is at e.limit)
SyntaxWhy(e) ==
  IF e.loc = <<>> THEN "ok"
  ELSE IF ~InFile(e.loc, e.text) THEN "the location is beyond the end of the text"
  ELSE IF ~LocLE(e.loc, <<e.limit[1], e.limit[2] + 1>>) THEN "the location is after the offending token"
  ELSE "ok"
Why(e) ==
  IF e.via \in {"api-syntax", "cli-syntax"} THEN SyntaxWhy(e) ELSE
  IF ~IsOneDatum(e.text, e.form) THEN "driver: the extent of the failing form does not mark one datum"
  ELSE IF e.site # <<>> /\ ~IsOneDatum(e.text, e.site) THEN "driver: the extent of the site does not mark one datum"
  ELSE IF e.loc = <<>> THEN "the error carries no location"
  ELSE IF ~InFile(e.loc, e.text) THEN "the location is beyond the end of the text"
  ELSE IF ~Within(e.loc, e.form) THEN "the location is outside the form that failed"
  ELSE IF e.site # <<>> /\ ~Within(e.loc, e.site) THEN "the location is not at the offending identifier / operator"
  ELSE "ok"
VARIABLES l, bad
Init == l = 1 /\ bad = 0
Next == /\ l <= Len(Rec)
        /\ LET w == Why(Rec[l]) IN
           IF w = "ok" THEN bad' = bad ELSE PrintT(<<"MISMATCH", ToJson([event |-> l, why |-> w])>>) /\ bad' = bad + 1
        /\ l' = l + 1
Done == l = Len(Rec) + 1 => PrintT(<<"DONE", ToJson([events |-> Len(Rec), bad |-> bad])>>)
=============================================================================
