---------------------------- MODULE Binary32Test ----------------------------
(* Oracle sanity (a test of the SPECIFICATION, not a verification technique for the code):
   BigInt/Binary32 agree with reference vectors computed by numpy.float32 / Python integers. *)
EXTENDS Binary32, Json, IOUtils, TLC
Cases == ndJsonDeserialize(IOEnv.CASES)
R(x) == MkReal(x.s, x.e, x.m)
Compute(c) ==
  CASE c.op = "add" -> RAdd(R(c.x), R(c.y))
    [] c.op = "sub" -> RSub(R(c.x), R(c.y))
    [] c.op = "mul" -> RMul(R(c.x), R(c.y))
    [] c.op = "div" -> RDiv(R(c.x), R(c.y))
    [] c.op = "floor" -> RFloor(R(c.x))
    [] c.op = "ceil" -> RCeiling(R(c.x))
    [] c.op = "ofint" -> RealOfBig(BigOfInt(c.n))
    [] c.op = "ofratio" -> RealOfRatio(BigOfInt(c.n), BigOfInt(c.d))
    [] c.op = "decimal" -> RoundNE(0, DecimalRat(MagOfNat(c.n), c.k)[1], DecimalRat(MagOfNat(c.n), c.k)[2])
SameReal(a, b) == (IsNaN(a) /\ IsNaN(b)) \/ a = b
VARIABLE i
Init == i = 1
Next == i <= Len(Cases) /\ i' = i + 1 /\
        (SameReal(Compute(Cases[i]), R(Cases[i].z)) \/ PrintT(<<"BAD", ToJson([case |-> Cases[i], got |-> Compute(Cases[i])])>>))
Cmp == i <= Len(Cases) /\ Cases[i].op = "cmp"
Done == i = Len(Cases) + 1 => PrintT(<<"DONE", ToJson([n |-> Len(Cases)])>>)
=============================================================================
