---------------------------- MODULE MCImportSet ----------------------------
(* Bounded universe for C12: every admissible import declaration up to Depth, the laws of the
   algebra as invariants, and one printed vector per declaration for replay on the real code. *)
EXTENDS ImportSet

CONSTANTS Fresh,        \* extra names available as rename targets
          PrefixSet,    \* set of prefixes
          Depth,        \* maximal nesting depth of a single import set
          MaxRename,    \* maximal number of pairs in one rename
          PairDepth,    \* maximal depth of the members of a two-set declaration (-1: none)
          Variant       \* "r7rs" | "seqrename" (deliberately broken model, sensitivity check)

---------------------------------------------------------------------------
(* the bounded universe: every admissible term up to Depth *)

IdLists(names) == {SetToSeq(S) : S \in SUBSET names}

RenamePairs(names) ==
  LET Targets == Exports \cup Fresh
      Froms   == {S \in SUBSET names : Cardinality(S) >= 1 /\ Cardinality(S) <= MaxRename}
      ForFroms(S) == LET fs == SetToSeq(S) IN
          {[i \in 1..Len(fs) |-> <<fs[i], tgt[i]>>] : tgt \in [1..Len(fs) -> Targets]}
  IN UNION {ForFroms(S) : S \in Froms}

Wrap(s) ==
  LET names == Names(Apply(s)) IN
       {[t |-> "only",   s |-> s, ids |-> ids] : ids \in IdLists(names)}
  \cup {[t |-> "except", s |-> s, ids |-> ids] : ids \in IdLists(names)}
  \cup {[t |-> "prefix", s |-> s, p |-> p] : p \in PrefixSet}
  \cup {r \in {[t |-> "rename", s |-> s, pairs |-> ps] : ps \in RenamePairs(names)} : Admissible(r)}

RECURSIVE TermsAt(_)
TermsAt(d) == IF d = 0 THEN {[t |-> "lib"]}
              ELSE UNION {Wrap(s) : s \in TermsAt(d - 1)}

TermsUpTo(d) == UNION {TermsAt(k) : k \in 0..d}

Decls == {<<s>> : s \in TermsUpTo(Depth)}
         \cup (IF PairDepth < 0 THEN {}
               ELSE {d \in {<<s1, s2>> : s1 \in TermsUpTo(PairDepth), s2 \in TermsUpTo(PairDepth)} :
                        AdmissibleDecl(d)})

---------------------------------------------------------------------------
(* model: one initial state per declaration; TLC checks the laws on it and prints the vector *)
VARIABLES decl, done
vars == <<decl, done>>

Init == decl \in Decls /\ done = FALSE
Next == done = FALSE /\ done' = TRUE /\ UNCHANGED decl
Spec == Init /\ [][Next]_vars

\* deliberately broken variant (renames applied one after the other): TLC must reject it
RECURSIVE SeqRen(_, _, _)
SeqRen(pairs, i, B) ==
  IF i > Len(pairs) THEN B
  ELSE SeqRen(pairs, i + 1, {<<IF b[1] = pairs[i][1] THEN pairs[i][2] ELSE b[1], b[2]>> : b \in B})
RECURSIVE ApplyV(_)
ApplyV(term) ==
  IF Variant = "r7rs" THEN Apply(term)
  ELSE CASE term.t = "lib"    -> Base
         [] term.t = "only"   -> {b \in ApplyV(term.s) : b[1] \in Rng(term.ids)}
         [] term.t = "except" -> {b \in ApplyV(term.s) : b[1] \notin Rng(term.ids)}
         [] term.t = "prefix" -> {<<term.p \o b[1], b[2]>> : b \in ApplyV(term.s)}
         [] term.t = "rename" -> SeqRen(term.pairs, 1, ApplyV(term.s))

Result == UNION {ApplyV(decl[i]) : i \in DOMAIN decl}

\* laws of the algebra (theorems of the spec within the bound)
LawAdmissible == AdmissibleDecl(decl)
LawFunctional == Functional(Result)
LawOrigins    == \A b \in Result : b[2] \in Exports
LawSplit ==   \* only/except with the same list partition the inner set
  \A i \in DOMAIN decl : decl[i].t \in {"only", "except"} =>
     LET inner == Apply(decl[i].s)
         o == Apply([t |-> "only",   s |-> decl[i].s, ids |-> decl[i].ids])
         e == Apply([t |-> "except", s |-> decl[i].s, ids |-> decl[i].ids])
     IN o \cup e = inner /\ o \cap e = {} /\ Names(o) = Rng(decl[i].ids)
LawCard ==    \* prefix and rename neither lose nor merge bindings
  \A i \in DOMAIN decl : decl[i].t \in {"prefix", "rename"} =>
     Cardinality(ApplyV(decl[i])) = Cardinality(ApplyV(decl[i].s))
LawPrefix ==  \* after a prefix the unprefixed names are gone: only sees the new names
  \A i \in DOMAIN decl : decl[i].t = "prefix" =>
     \A b \in Apply(decl[i]) : \E c \in Apply(decl[i].s) : b[1] = decl[i].p \o c[1] /\ b[2] = c[2]
Laws == LawAdmissible /\ LawFunctional /\ LawOrigins /\ LawSplit /\ LawCard /\ LawPrefix

Vec == [decl |-> decl,
        binds |-> SetToSeq({[name |-> b[1], origin |-> b[2]] : b \in Result})]
Emit == done => PrintT(<<"VEC", ToJson(Vec)>>)
=============================================================================
