------------------------------ MODULE MCNumbers ------------------------------
(***************************************************************************)
(* C09 / C10: the grid of numbers (as source expressions, so that the      *)
(* implementation builds every internal representation itself), the laws   *)
(* of the oracle on the grid (TLC checks them on NumbersX/Binary32/BigInt  *)
(* alone), and the printed grid from which the cases are formed.           *)
(***************************************************************************)
EXTENDS NumbersX, Json

I(n) == [t |-> "int", v |-> n]
Rt(n, d) == [t |-> "rat", n |-> n, d |-> d]
\* a decimal literal: the spec value is the correctly rounded binary32 of digits * 10^k
Dec(neg, digits, k) == LET r == DecimalRat(MagOfNat(digits), k) IN RoundNE(IF neg THEN 1 ELSE 0, r[1], r[2])
G(src, val) == [src |-> src, val |-> val]

Grid == <<
  \* integers: small, boundary
  G("0", I(0)), G("1", I(1)), G("-1", I(-1)), G("2", I(2)), G("-2", I(-2)), G("3", I(3)), G("7", I(7)), G("-7", I(-7)),
  G("10", I(10)), G("12", I(12)), G("100", I(100)), G("-100", I(-100)), G("255", I(255)),
  G("32767", I(32767)), G("-32768", I(-32768)), G("32768", I(32768)), G("46341", I(46341)), G("65536", I(65536)),
  G("1000000", I(1000000)), G("16777216", I(16777216)), G("16777217", I(16777217)),
  G("2147483647", I(2147483647)), G("-2147483647", I(-2147483647)),
  \* ratio literals, reduced and unreduced
  G("1/2", Rt(1, 2)), G("-1/2", Rt(-1, 2)), G("1/3", Rt(1, 3)), G("2/3", Rt(2, 3)), G("-3/4", Rt(-3, 4)), G("2/4", Rt(2, 4)),
  G("6/3", Rt(6, 3)), G("7/2", Rt(7, 2)), G("-7/2", Rt(-7, 2)), G("32767/2", Rt(32767, 2)), G("1/32767", Rt(1, 32767)),
  G("2147483647/2", Rt(2147483647, 2)), G("1/2147483647", Rt(1, 2147483647)),
  \* produced by arithmetic: every internal representation of a number
  G("(/ 1 -2)", Rt(-1, 2)), G("(/ -1 -2)", Rt(1, 2)), G("(/ 4 -6)", Rt(-2, 3)), G("(+ 1/4 1/4)", Rt(1, 2)),
  G("(* 2/3 3/2)", I(1)), G("(- 1/2 1/2)", I(0)), G("(/ 6 3)", I(2)), G("(/ 0 5)", I(0)), G("(* 1/2 2)", I(1)),
  G("(- 7)", I(-7)), G("(/ -7 2)", Rt(-7, 2)),
  \* reals
  G("0.0", PosZero), G("-0.0", NegZero), G("0.5", Dec(FALSE, 5, -1)), G("-0.5", Dec(TRUE, 5, -1)), G("1.5", Dec(FALSE, 15, -1)),
  G("0.1", Dec(FALSE, 1, -1)), G("0.25", Dec(FALSE, 25, -2)), G("2.5", Dec(FALSE, 25, -1)), G("-2.5", Dec(TRUE, 25, -1)),
  G("100.0", Dec(FALSE, 100, 0)), G("1e10", Dec(FALSE, 1, 10)), G("-1e10", Dec(TRUE, 1, 10)),
  G("16777216.0", Dec(FALSE, 16777216, 0)), G("16777218.0", Dec(FALSE, 16777218, 0)), G("3e38", Dec(FALSE, 3, 38)),
  G("1e-40", Dec(FALSE, 1, -40)), G("1e-45", Dec(FALSE, 1, -45)), G("0.3333333", Dec(FALSE, 3333333, -7)) >>

N == Len(Grid)
Val(i) == Grid[i].val
Exacts == {i \in 1..N : IsExactV(Val(i))}
Reals == {i \in 1..N : IsRealV(Val(i))}

\* ---- laws of the oracle (theorems of the specification on the grid)
QV(i) == QOf(Val(i))
LawField ==         \* exact arithmetic is a field on the grid
  \A i, j \in Exacts :
    /\ QEq(QAdd(QV(i), QV(j)), QAdd(QV(j), QV(i)))
    /\ QEq(QSub(QAdd(QV(i), QV(j)), QV(j)), QV(i))
    /\ QEq(QMul(QV(i), QV(j)), QMul(QV(j), QV(i)))
    /\ (~QIsZero(QV(j)) => QEq(QMul(QDiv(QV(i), QV(j)), QV(j)), QV(i)))
LawFloor ==         \* floor(x) <= x < floor(x) + 1; n = d q + r with 0 <= r < |d| having the sign of d
  \A i \in Exacts :
    LET f == QInt(QFloor(QV(i))) c == QInt(QCeiling(QV(i))) IN
      /\ QCmp(f, QV(i)) <= 0 /\ QCmp(QV(i), QAdd(f, QInt(BigOfInt(1)))) < 0
      /\ QCmp(c, QV(i)) >= 0 /\ QCmp(QSub(c, QInt(BigOfInt(1))), QV(i)) < 0
LawOrder ==         \* the order is total, antisymmetric and transitive; = is its equivalence
  \A i, j \in 1..N :
    LET c == PCmp(POfV(Val(i)), POfV(Val(j))) IN
      /\ c \in {-1, 0, 1}
      /\ PCmp(POfV(Val(j)), POfV(Val(i))) = -c
LawOrderTrans ==
  \A i, j, k \in Exacts :
    (QCmp(QV(i), QV(j)) <= 0 /\ QCmp(QV(j), QV(k)) <= 0) => QCmp(QV(i), QV(k)) <= 0
LawContagion ==     \* an operation with an inexact operand is inexact; with exact operands exact
  \A i \in 1..N : \A j \in 1..N :
    LET p == Arith("+", <<Val(i), Val(j)>>) IN p.x = (IsExactV(Val(i)) /\ IsExactV(Val(j)))
LawRealExact ==     \* converting a small dyadic exact number is exact: 1/2 -> 0.5 etc.
  /\ RealOfV(Rt(1, 2)) = Dec(FALSE, 5, -1)
  /\ RealOfV(I(16777217)) = Dec(FALSE, 16777216, 0)          \* ties to even
  /\ RAdd(Dec(FALSE, 1, -1), Dec(FALSE, 2, -1)) = MkReal(0, 125, 1677722)      \* 0.1 + 0.2 = 0.3 (0x3e99999a)

UnaryOps == <<"abs", "floor", "ceiling", "-", "/">>
BinaryOps == <<"+", "-", "*", "/", "=", "<", ">", "<=", ">=", "max", "min", "eqv?", "floor-quotient", "floor-remainder">>
TernaryOps == <<"+", "-", "*", "/", "=", "<", ">", "<=", ">=", "max", "min">>

VARIABLE done
Laws == done => (LawField /\ LawFloor /\ LawOrder /\ LawOrderTrans /\ LawContagion /\ LawRealExact)
Init == done = FALSE
Next == ~done /\ done' = TRUE
Emit == done => PrintT(<<"VEC", ToJson([grid |-> [i \in 1..N |-> [src |-> Grid[i].src, val |-> Grid[i].val]],
                                        unary |-> UnaryOps, binary |-> BinaryOps, ternary |-> TernaryOps])>>)
=============================================================================
