------------------------------ MODULE MCNumbers ------------------------------
(***************************************************************************)
(* C09 / C10: the grid of numbers (as source expressions, so that the      *)
(* implementation builds every internal representation itself), the laws   *)
(* of the oracle on the grid (TLC checks them on NumbersX/Binary32/BigInt  *)
(* alone), and the printed grid from which the cases are formed.           *)
(***************************************************************************)
EXTENDS NumbersX, Json, SequencesExt

I(n) == [t |-> "int", v |-> n]
Rt(n, d) == [t |-> "rat", n |-> n, d |-> d]
\* a decimal literal: the spec value is the correctly rounded binary32 of digits * 10^k
Dec(neg, digits, k) == LET r == DecimalRat(MagOfNat(digits), k) IN RoundNE(IF neg THEN 1 ELSE 0, r[1], r[2])
G(src, val) == [src |-> src, val |-> val]
F(s, e, m) == MkReal(s, e, m)
\* decimal literals of the grid with their binary32 fields; LawDecimals re-derives the fields from the digits
Decimals == <<<<"0.5", FALSE, 5, -1, F(0, 126, 0)>>,
  <<"-0.5", TRUE, 5, -1, F(1, 126, 0)>>,
  <<"1.5", FALSE, 15, -1, F(0, 127, 4194304)>>,
  <<"0.1", FALSE, 1, -1, F(0, 123, 5033165)>>,
  <<"0.25", FALSE, 25, -2, F(0, 125, 0)>>,
  <<"2.5", FALSE, 25, -1, F(0, 128, 2097152)>>,
  <<"-2.5", TRUE, 25, -1, F(1, 128, 2097152)>>,
  <<"100.0", FALSE, 100, 0, F(0, 133, 4718592)>>,
  <<"1e10", FALSE, 1, 10, F(0, 160, 1377017)>>,
  <<"-1e10", TRUE, 1, 10, F(1, 160, 1377017)>>,
  <<"16777216.0", FALSE, 16777216, 0, F(0, 151, 0)>>,
  <<"16777218.0", FALSE, 16777218, 0, F(0, 151, 1)>>,
  <<"3e38", FALSE, 3, 38, F(0, 254, 6402534)>>,
  <<"1e-40", FALSE, 1, -40, F(0, 0, 71362)>>,
  <<"1e-45", FALSE, 1, -45, F(0, 0, 1)>>,
  <<"0.3333333", FALSE, 3333333, -7, F(0, 125, 2796202)>>>>

Grid == <<
  \* integers: small, boundary
  G("0", I(0)), G("1", I(1)), G("-1", I(-1)), G("2", I(2)), G("-2", I(-2)), G("3", I(3)), G("7", I(7)), G("-7", I(-7)),
  G("10", I(10)), G("12", I(12)), G("100", I(100)), G("-100", I(-100)), G("255", I(255)),
  G("32767", I(32767)), G("-32768", I(-32768)), G("32768", I(32768)), G("46341", I(46341)), G("65536", I(65536)),
  G("1000000", I(1000000)), G("16777216", I(16777216)), G("16777217", I(16777217)),
  G("2147483647", I(2147483647)), G("-2147483647", I(-2147483647)),
  \* ratio literals, reduced and unreduced
  G("1/2", Rt(1, 2)), G("-1/2", Rt(-1, 2)), G("1/3", Rt(1, 3)), G("2/3", Rt(2, 3)), G("-3/4", Rt(-3, 4)), G("2/4", Rt(2, 4)),
  G("6/3", Rt(6, 3)), G("7/2", Rt(7, 2)), G("-7/2", Rt(-7, 2)), G("32767/2", Rt(32767, 2)), G("1/32767", Rt(1, 32767)),
  G("2147483647/2", Rt(2147483647, 2)), G("1/2147483647", Rt(1, 2147483647)),
  \* produced by arithmetic: every internal representation of a number
  G("(/ 1 -2)", Rt(-1, 2)), G("(/ -1 -2)", Rt(1, 2)), G("(/ 4 -6)", Rt(-2, 3)), G("(+ 1/4 1/4)", Rt(1, 2)),
  G("(* 2/3 3/2)", I(1)), G("(- 1/2 1/2)", I(0)), G("(/ 6 3)", I(2)), G("(/ 0 5)", I(0)), G("(* 1/2 2)", I(1)),
  G("(- 7)", I(-7)), G("(/ -7 2)", Rt(-7, 2)),
  \* ... and by max/min, whose contagion step converts the operands before one of them is returned
  G("(max 3 1/2)", I(3)), G("(min -2 1/3)", I(-2)), G("(max 1/3 1/2 0)", Rt(1, 2)),
  \* ... and by the other numeric procedures
  G("(abs -1/2)", Rt(1, 2)), G("(floor 7/2)", I(3)), G("(ceiling -7/2)", I(-3)), G("(floor-quotient -7 2)", I(-4)),
  G("(floor-remainder -7 2)", I(1)), G("(exact 2.0)", I(2)), G("(abs -0.5)", F(0, 126, 0)),
  \* reals
  G("0.0", PosZero), G("-0.0", NegZero), G("0.5", F(0, 126, 0)), G("-0.5", F(1, 126, 0)), G("1.5", F(0, 127, 4194304)),
  G("0.1", F(0, 123, 5033165)), G("0.25", F(0, 125, 0)), G("2.5", F(0, 128, 2097152)), G("-2.5", F(1, 128, 2097152)),
  G("100.0", F(0, 133, 4718592)), G("1e10", F(0, 160, 1377017)), G("-1e10", F(1, 160, 1377017)),
  G("16777216.0", F(0, 151, 0)), G("16777218.0", F(0, 151, 1)), G("3e38", F(0, 254, 6402534)),
  G("1e-40", F(0, 0, 71362)), G("1e-45", F(0, 0, 1)), G("0.3333333", F(0, 125, 2796202)) >>

N == Len(Grid)
Val(i) == Grid[i].val
Exacts == {i \in 1..N : IsExactV(Val(i))}
Reals == {i \in 1..N : IsRealV(Val(i))}

\* ---- laws of the oracle (theorems of the specification on the grid); one TLC state per pair (i, j)
GridP == [i \in 1..N |-> POfV(Val(i))]          \* evaluated once
VARIABLES i, j, phase
QV(x) == GridP[x].q
LawField ==         \* exact arithmetic is a field on the grid
  (i \in Exacts /\ j \in Exacts) =>
    /\ QEq(QAdd(QV(i), QV(j)), QAdd(QV(j), QV(i)))
    /\ QEq(QSub(QAdd(QV(i), QV(j)), QV(j)), QV(i))
    /\ QEq(QMul(QV(i), QV(j)), QMul(QV(j), QV(i)))
    /\ (~QIsZero(QV(j)) => QEq(QMul(QDiv(QV(i), QV(j)), QV(j)), QV(i)))
LawFloor ==         \* floor(x) <= x < floor(x) + 1, ceiling likewise
  (i \in Exacts /\ j = 1) =>
    LET f == QInt(QFloor(QV(i))) c == QInt(QCeiling(QV(i))) IN
      /\ QCmp(f, QV(i)) <= 0 /\ QCmp(QV(i), QAdd(f, QInt(BigOfInt(1)))) < 0
      /\ QCmp(c, QV(i)) >= 0 /\ QCmp(QSub(c, QInt(BigOfInt(1))), QV(i)) < 0
LawFloorDiv ==      \* n = d q + r with q = floor(n / d)
  (i \in Exacts /\ j \in Exacts /\ ~QIsZero(QV(j))) =>
    LET q == QInt(QFloor(QDiv(QV(i), QV(j))))
        r == QSub(QV(i), QMul(QV(j), q))
    IN QEq(QAdd(QMul(QV(j), q), r), QV(i)) /\ QCmp(QAbs(r), QAbs(QV(j))) < 0
LawOrder ==         \* the order is total and antisymmetric
  LET c == PCmp(GridP[i], GridP[j]) IN c \in {-1, 0, 1} /\ PCmp(GridP[j], GridP[i]) = -c
LawOrderTrans ==
  (i \in Exacts /\ j \in Exacts) =>
    \A k \in Exacts : (QCmp(QV(i), QV(j)) <= 0 /\ QCmp(QV(j), QV(k)) <= 0) => QCmp(QV(i), QV(k)) <= 0
LawContagion ==     \* an operation with an inexact operand is inexact; with exact operands exact
  LET p == PBin("+", GridP[i], GridP[j]) IN p.x = (IsExactV(Val(i)) /\ IsExactV(Val(j)))
LawRealExact ==
  (i = 1 /\ j = 1) =>
  /\ RealOfV(Rt(1, 2)) = Dec(FALSE, 5, -1)
  /\ RealOfV(I(16777217)) = Dec(FALSE, 16777216, 0)          \* ties to even
  /\ RAdd(Dec(FALSE, 1, -1), Dec(FALSE, 2, -1)) = MkReal(0, 125, 1677722)      \* 0.1 + 0.2 = 0.3 (0x3e99999a)
LawDecimals == (j = 1 /\ i <= Len(Decimals)) => Dec(Decimals[i][2], Decimals[i][3], Decimals[i][4]) = Decimals[i][5]
Laws == phase = 1 => (LawDecimals /\ LawField /\ LawFloor /\ LawFloorDiv /\ LawOrder /\ LawOrderTrans /\ LawContagion /\ LawRealExact)

UnaryOps == <<"abs", "floor", "ceiling", "-", "/">>
BinaryOps == <<"+", "-", "*", "/", "=", "<", ">", "<=", ">=", "max", "min", "eqv?", "floor-quotient", "floor-remainder">>
TernaryOps == <<"+", "-", "*", "/", "=", "<", ">", "<=", ">=", "max", "min">>

Init == i \in 1..N /\ j \in 1..N /\ phase = 0
Next == phase = 0 /\ phase' = 1 /\ UNCHANGED <<i, j>>
\* pairs of distinct grid entries that have the same binary32 image (numerically equal in different
\* representations, or distinct exact numbers that round to the same real): the interesting neighbours
\* for n-ary chains and mixed comparisons
GridR == [x \in 1..N |-> RealOfV(Val(x))]
Confusable == {p \in (1..N) \X (1..N) : p[1] < p[2] /\ ~IsNaN(GridR[p[1]]) /\ RCmp(GridR[p[1]], GridR[p[2]]) = 0}
Emit == (phase = 1 /\ i = 1 /\ j = 1) =>
          PrintT(<<"VEC", ToJson([grid |-> [x \in 1..N |-> [src |-> Grid[x].src, val |-> Grid[x].val]],
                                  unary |-> UnaryOps, binary |-> BinaryOps, ternary |-> TernaryOps,
                                  confusable |-> SetToSeq(Confusable)])>>)
=============================================================================
