CONSTANTS
  GC = TRUE
  Broken = "none"
  Family = "tail-inf-1"
  MaxKont = 4
SPECIFICATION Spec
INVARIANT KontBounded
CHECK_DEADLOCK FALSE
