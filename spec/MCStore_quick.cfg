CONSTANTS
  GC = FALSE
  Broken = "none"
  Counters = {"c1", "c2"}
  Shared = {"p1"}
  VecOrder <- VecOrder2
  ListVars = {"l1"}
  CapVars = {"k1"}
  Vals = {5}
  MaxLen = 4
  Emitting = TRUE
SPECIFICATION Spec
INVARIANT Refinement
INVARIANT LiteralsFrozen
INVARIANT CountersIndependent
INVARIANT Emit
CHECK_DEADLOCK FALSE
