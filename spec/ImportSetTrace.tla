---------------------------- MODULE ImportSetTrace ----------------------------
(* Trace validation for C12: every recorded (import ...) of the real interpreter must have bound
   exactly ApplyDecl(decl).  Events: {"ev":"import","decl":[term...],"failed":BOOLEAN,"obs":[{"name","origin"}...]} *)
EXTENDS ImportSet, IOUtils

Rec == ndJsonDeserialize(IOEnv.TRACE)

VARIABLES l, bad
vars == <<l, bad>>

Init == l = 1 /\ bad = 0

Observed(e) == {<<e.obs[i].name, e.obs[i].origin>> : i \in DOMAIN e.obs}

Check ==
  /\ l <= Len(Rec)
  /\ LET e == Rec[l]
         expected == ApplyDecl(e.decl)
         ok == IF AdmissibleDecl(e.decl) THEN ~e.failed /\ expected = Observed(e)
               ELSE AdmissibleDeclButForStrays(e.decl) => (e.failed \/ expected = Observed(e))
     IN  IF ok THEN bad' = bad
         ELSE /\ PrintT(<<"MISMATCH", ToJson([event |-> l, decl |-> e.decl,
                     expected |-> SetToSeq({[name |-> b[1], origin |-> b[2]] : b \in expected}),
                     observed |-> e.obs])>>)
              /\ bad' = bad + 1
  /\ l' = l + 1

Next == Check
Spec == Init /\ [][Next]_vars

Done == l = Len(Rec) + 1 => PrintT(<<"DONE", ToJson([events |-> Len(Rec), bad |-> bad])>>)
=============================================================================
