CONSTANTS
  Mode = "pairs"
  MaxPat = 1
  MaxUse = 2
  Emitting = TRUE
INIT Init
NEXT Next
INVARIANT Laws
INVARIANT Emit
CHECK_DEADLOCK FALSE
