----------------------------- MODULE ReaderTrace -----------------------------
(* Trace validation for C06 (and the reading half of C16).  Events:
     {"text":[cp...], "lex": {"k":"tokens","toks":[...]} | {"k":"lexerror"} | {"k":"panic"|...},
      "read": outcome of evaluating 'TEXT | {"k":"absent"}, "want": datum | {"t":"none"}}
   lex is what Lexer::from_char_stream produced for the text, read what the interpreter returned for the
   quoted text.  "want" (optional) is the tree the text was rendered from: the specification's own reading
   of the text must give it back (this checks the renderer, not the implementation). *)
EXTENDS Reader, Json, IOUtils, TLC

Rec == ndJsonDeserialize(IOEnv.TRACE)

TokInRange(tok) == CASE tok.t = "int" -> FitsI32Digits(tok.digits, tok.neg)
                     [] tok.t = "rat" -> FitsI32Digits(tok.num, tok.neg) /\ FitsI32Digits(tok.den, FALSE) /\ StripZeros(tok.den) # <<48>>
                     [] OTHER -> TRUE
TokMatches(s, o) ==
  CASE s.t = "int" -> o.t = "int" /\ o.v = IntOfDigits(s.digits, s.neg)
    [] s.t = "rat" -> o.t = "rat" /\ o.n = IntOfDigits(s.num, s.neg) /\ o.d = IntOfDigits(s.den, FALSE)
    [] s.t = "real" -> o.t = "real"
    [] OTHER -> s = o

LexVerdict(L, obs) ==
  CASE L.k = "unsupported" -> TRUE
    [] L.k = "error" -> obs.k = "lexerror"
    [] L.k = "tokens" ->
         IF \E i \in DOMAIN L.toks : ~TokInRange(L.toks[i]) THEN obs.k = "lexerror"
         ELSE obs.k = "tokens" /\ Len(obs.toks) = Len(L.toks) /\ \A i \in DOMAIN L.toks : TokMatches(L.toks[i], obs.toks[i])

ReadVerdict(L, read) ==
  IF read.k = "absent" \/ L.k = "unsupported" THEN TRUE
  \* a lexical error somewhere in the text: evaluation must end in an error (the syntax error, or an earlier
  \* run-time error of a form before it - forms are read and evaluated one by one), never in a value
  ELSE IF L.k = "error" \/ (\E i \in DOMAIN L.toks : ~TokInRange(L.toks[i])) THEN read.k = "error"
  ELSE \* the interpreter reads and evaluates form by form: only the first datum of the text (quoted by the
       \* driver) is determined by the text alone - what follows may fail earlier for other reasons
       IF L.toks = <<>> THEN TRUE
       ELSE LET r == ParseDatum(L.toks, 1) IN
            IF r.k # "ok" THEN read.k = "error" /\ read.kind = "Syntax"
            ELSE IF r.next > Len(L.toks) THEN read.k = "value" /\ DatumMatches(r.d, read.v)
            ELSE TRUE

\* the renderer's tree: the specification's reading of the text is that tree
RECURSIVE WantEq(_, _)
WantEq(w, d) ==       \* w: the tree given to the renderer (reals by their literal text); d: the specification's datum
  CASE w.t = "realtext" -> d = DecimalOfText(w.cs)
    [] w.t = "pair" -> d.t = "pair" /\ WantEq(w.a, d.a) /\ WantEq(w.d, d.d)
    [] w.t = "vec" -> d.t = "vec" /\ Len(w.xs) = Len(d.xs) /\ \A i \in DOMAIN w.xs : WantEq(w.xs[i], d.xs[i])
    [] OTHER -> w = d
WantVerdict(L, want) ==
  want.t = "none" \/ (L.k = "tokens" /\ LET R == ReadAll(L.toks) IN R.k = "data" /\ Len(R.ds) = 1 /\ WantEq(want, R.ds[1]))

VARIABLES l, bad
Init == l = 1 /\ bad = 0
Next == /\ l <= Len(Rec)
        /\ LET e == Rec[l]
               L == Lex(e.text)
               why == IF ~WantVerdict(L, e.want) THEN "renderer: the specification does not read the text back as the tree it was rendered from"
                      ELSE IF ~LexVerdict(L, e.lex) THEN "tokens"
                      ELSE IF ~ReadVerdict(L, e.read) THEN "datum"
                      ELSE "ok"
           IN IF why = "ok" THEN bad' = bad
              ELSE PrintT(<<"MISMATCH", ToJson([event |-> l, why |-> why, text |-> e.text, spec |-> L, lex |-> e.lex, read |-> e.read])>>) /\ bad' = bad + 1
        /\ l' = l + 1
Done == l = Len(Rec) + 1 => PrintT(<<"DONE", ToJson([events |-> Len(Rec), bad |-> bad])>>)
=============================================================================
