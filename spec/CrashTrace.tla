------------------------------ MODULE CrashTrace ------------------------------
(* C07.  Events {"text":[cp...] (empty when the input is long or not text), "out": outcome, "sanity": outcome,
   "alone": outcome}: the outcome of evaluating one input on a long-lived interpreter, of the sanity form
   (tick! 3) evaluated on the same interpreter right after it, and of the same input alone on a fresh interpreter.
   Every input must end in a value or a reported error, and the interpreter must still work. *)
EXTENDS Reader, Json, IOUtils, TLC

Rec == ndJsonDeserialize(IOEnv.TRACE)
Reported(o) == o.k \in {"value", "none", "error"}
SanityOK(o) == o.k = "value" /\ o.v = [t |-> "int", v |-> 3]
Why(e) ==
  IF ~Reported(e.out) THEN "the input did not end in a value or a reported error"
  ELSE IF ~SanityOK(e.sanity) THEN "the interpreter does not evaluate further input correctly afterwards"
  ELSE IF ~Reported(e.alone) THEN "alone on a fresh interpreter the input does not end in a value or a reported error"
  ELSE "ok"
\* (Whether a lexically invalid text is REJECTED is C06's business, on the supported grammar; C07 only demands an
\*  outcome.  An earlier version also demanded an error whenever Lexer!Lex says error; that is more than C07 states -
\*  e.g. Ruschm reads \x1 as an identifier - and was removed, see DESIGN.md Appendix E.)
VARIABLES l, bad
Init == l = 1 /\ bad = 0
Next == /\ l <= Len(Rec)
        /\ LET w == Why(Rec[l]) IN
           IF w = "ok" THEN bad' = bad
           ELSE PrintT(<<"MISMATCH", ToJson([event |-> l, why |-> w, out |-> Rec[l].out, sanity |-> Rec[l].sanity, alone |-> Rec[l].alone])>>) /\ bad' = bad + 1
        /\ l' = l + 1
Done == l = Len(Rec) + 1 => PrintT(<<"DONE", ToJson([events |-> Len(Rec), bad |-> bad])>>)
=============================================================================
