CONSTANTS
  Libs = {1, 2, 3}
  NoLib = 0
  MaxAttempts = 2
  AsImplemented = FALSE
  FaultKinds = {"fault", "missing", "malformed"}
  MaxFaulty = 2
  Orders = "both"
SPECIFICATION Spec
INVARIANT TypeOK
INVARIANT NoStaleMark
INVARIANT OutcomeIsFunctionOfGraph
INVARIANT OutcomeAllowed
INVARIANT BoundedNesting
INVARIANT Emit
CHECK_DEADLOCK FALSE
