INIT Init
NEXT Next
INVARIANT Law
INVARIANT Emit
CHECK_DEADLOCK FALSE
