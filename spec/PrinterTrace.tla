---------------------------- MODULE PrinterTrace ----------------------------
(* Trace validation for C16.  Events {"value": v, "text": [cp...], "readback": outcome}:
   v is a value the interpreter built, text what display writes for it (format!("{}", v)), readback the
   outcome of evaluating the quoted text again. *)
EXTENDS Printer, Json, IOUtils, TLC

Rec == ndJsonDeserialize(IOEnv.TRACE)

RECURSIVE ImproperTails(_)
ImproperTails(v) ==
  CASE v.t = "pair" -> ImproperTails(v.a) + (IF v.d.t \in {"pair", "nil"} THEN ImproperTails(v.d)
                                              ELSE 1 + ImproperTails(v.d))
    [] v.t = "vec" -> LET RECURSIVE S(_) S(i) == IF i > Len(v.xs) THEN 0 ELSE ImproperTails(v.xs[i]) + S(i + 1) IN S(1)
    [] OTHER -> 0
DotTokens(toks) == Len(SelectSeq(toks, LAMBDA t : t.t = "dot"))

\* single spaces, none after an opening parenthesis, none before a closing one, no other white space
\* position i holds the character of a character literal #\c (any character, white space and parentheses included)
IsCharLit(text, i) == i >= 3 /\ text[i - 1] = BSLASH /\ text[i - 2] = HASH
LayoutOK(text) ==
  /\ \A i \in DOMAIN text : text[i] \in {TAB, LF, CR} => IsCharLit(text, i)
  /\ \A i \in 1..(Len(text) - 1) : ~(text[i] = SP /\ text[i + 1] = SP /\ ~IsCharLit(text, i))
  /\ \A i \in 1..(Len(text) - 1) :
        /\ ~(text[i] = LPAREN /\ text[i + 1] = SP /\ ~IsCharLit(text, i))
        /\ ~(text[i] = SP /\ text[i + 1] = RPAREN /\ ~IsCharLit(text, i))
  /\ text # <<>> /\ text[1] # SP /\ (text[Len(text)] # SP \/ IsCharLit(text, Len(text)))

Why(e) ==
  LET L == Lex(e.text)
      D == ReadText(e.text)
  IN IF D.t = "unreadable" THEN "the printed text is not one datum of the supported grammar"
     ELSE IF ~DatumMatches(D, e.value) THEN "the printed text denotes a different value"
     ELSE IF e.readback.k # "value" THEN "reading the printed text back fails"
     ELSE IF e.readback.v # e.value THEN "the value read back differs (or differs in exactness)"
     ELSE IF ~LayoutOK(e.text) THEN "layout: not single spaces"
     ELSE IF DotTokens(L.toks) # ImproperTails(e.value) THEN "a dotted tail is written where the list is proper (or missing where it is improper)"
     ELSE "ok"

VARIABLES l, bad
Init == l = 1 /\ bad = 0
Next == /\ l <= Len(Rec)
        /\ LET e == Rec[l] w == Why(e) IN
           IF w = "ok" THEN bad' = bad
           ELSE PrintT(<<"MISMATCH", ToJson([event |-> l, why |-> w, value |-> e.value, text |-> e.text, readback |-> e.readback])>>) /\ bad' = bad + 1
        /\ l' = l + 1
\* distinct values print differently (within this trace)
Injective == \A a, b \in DOMAIN Rec : Rec[a].text = Rec[b].text => Rec[a].value = Rec[b].value
Done == l = Len(Rec) + 1 =>
          PrintT(<<"DONE", ToJson([events |-> Len(Rec), bad |-> bad, injective |-> Injective])>>)
=============================================================================
