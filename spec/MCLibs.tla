------------------------------- MODULE MCLibs -------------------------------
(***************************************************************************)
(* C13: libraries are encapsulated and loaded once per program.            *)
(* A library instance is a root frame (no parent: the importer's names are *)
(* invisible inside) holding the bindings it imported and its own          *)
(* definitions; importing binds the exported names, in the importer's      *)
(* frame, to the values the instance exports.  The instance is created by  *)
(* the first import and shared by all later ones (insts).                  *)
(* Reinstantiate = TRUE is the implementation as found: every import       *)
(* evaluates the library again - TLC must reject it (OneInstance).         *)
(***************************************************************************)
EXTENDS Machine, Programs, Json, SequencesExt

CONSTANTS MaxOps, Reinstantiate,
          Family      \* "main": the world below with all operations; "patch": two libraries that import (counter) alone and assign an imported name

Inc(x) == Set(x, Call("+", <<Var(x), Num(1)>>))
Thunk(body) == Lam(<<>>, "", <<>>, body)
\* the world of libraries: name -> [imports, body, exports <<internal, external>>]
World ==
  ("counter" :> [imports |-> <<>>,
                 \* start: an exported variable the body assigns again at its very end - what is exported is the binding
                 \* the finished body leaves, wherever the export declaration stands
                 body |-> <<Define("start", Num(100)), Define("n", Num(0)),
                            Define("bump", Thunk(<<Inc("n"), Var("n")>>)),            \* not exported
                            Define("next!", Thunk(<<Call("bump", <<>>)>>)),
                            Define("peek", Thunk(<<Var("n")>>)),
                            Define("helper", Thunk(<<Quote(MkSym("library-helper"))>>)),   \* name collides with the importer's
                            Define("show", Thunk(<<Call("helper", <<>>)>>)),
                            Define("leak", Thunk(<<Var("importer-var")>>)),             \* free name the importer may define
                            \* two definitions exported under each other's names, and a procedure that reads them
                            Define("a-val", Quote(MkSym("internal-a"))), Define("b-val", Quote(MkSym("internal-b"))),
                            Define("get-ab", Thunk(<<Call("list", <<Var("a-val"), Var("b-val")>>)>>)),
                            Set("start", Num(7))>>,
                 \* external names may collide with internal ones: peek is exported as bump (the unexported bump stays what
                 \* next! calls), a-val and b-val swap names; none of this changes anything INSIDE the library
                 exports |-> << <<"next!", "next!">>, <<"peek", "peek">>, <<"show", "show">>, <<"leak", "leak">>, <<"bump", "renamed-bump">>,
                                <<"peek", "bump">>, <<"a-val", "b-val">>, <<"b-val", "a-val">>, <<"get-ab", "get-ab">>, <<"start", "start">> >>])
  @@ ("user" :> [imports |-> <<"counter">>,
                 body |-> <<Define("use-counter", Thunk(<<Call("next!", <<>>)>>)),
                            Define("helper", Thunk(<<Quote(MkSym("user-helper"))>>)),
                            \* the library redefines a name it imported and exports ITS definition
                            Define("peek", Thunk(<<Quote(MkSym("user-peek"))>>))>>,
                 \* next! is re-exported: an imported binding handed on under another name is still the one instance's procedure
                 exports |-> << <<"use-counter", "use-counter">>, <<"peek", "u-peek">>, <<"next!", "u-next!">> >>])
  \* a third level: (top) imports (user) only; its procedure reaches the counter through two library boundaries
  @@ ("top" :> [imports |-> <<"user">>,
                body |-> <<Define("top-use", Thunk(<<Call("use-counter", <<>>)>>))>>,
                exports |-> << <<"top-use", "top-use">> >>])
  \* a library without any import declaration: its body can only define procedures over its own names - and their free
  \* variables are unbound, whatever the importer defines (the library environment is not a child of the importer's)
  @@ ("bare" :> [imports |-> <<>>, bare |-> TRUE,
                 body |-> <<Define("bare-leak", Thunk(<<Var("importer-var")>>)),
                            Define("bare-set", Thunk(<<Set("importer-var", Num(0))>>))>>,
                 exports |-> << <<"bare-leak", "bare-leak">>, <<"bare-set", "bare-set">> >>])
  \* two libraries whose only import is (counter) (written as a declaration of its own: solo).  (patcher) ASSIGNS names it
  \* imported - one at load time, one when patch! is called: what it imported are ITS bindings, so neither (reader), which
  \* imported the same names the same way, nor the program, nor (counter) itself may notice
  @@ ("patcher" :> [imports |-> <<"counter">>, solo |-> TRUE,
                    body |-> <<Define("patch!", Thunk(<<Set("peek", Thunk(<<Quote(MkSym("patched"))>>))>>)),
                               Define("patched-peek", Thunk(<<Call("peek", <<>>)>>)),
                               Define("patched-show", Thunk(<<Call("show", <<>>)>>)),
                               Set("show", Thunk(<<Quote(MkSym("patched-at-load"))>>))>>,
                    exports |-> << <<"patch!", "patch!">>, <<"patched-peek", "patched-peek">>, <<"patched-show", "patched-show">> >>])
  @@ ("reader" :> [imports |-> <<"counter">>, solo |-> TRUE,
                   body |-> <<Define("read-peek", Thunk(<<Call("peek", <<>>)>>)),
                              Define("read-show", Thunk(<<Call("show", <<>>)>>)),
                              Define("read-next", Thunk(<<Call("next!", <<>>)>>))>>,
                   exports |-> << <<"read-peek", "read-peek">>, <<"read-show", "read-show">>, <<"read-next", "read-next">> >>])
  \* a diamond under ONE import: (dia) imports (reader), which imports (counter), and (counter) itself - still one instance
  @@ ("dia" :> [imports |-> <<"reader", "counter">>,
                body |-> <<Define("dia-next", Thunk(<<Call("next!", <<>>)>>)),
                           Define("dia-read", Thunk(<<Call("read-next", <<>>)>>)),
                           Define("dia-peek", Thunk(<<Call("peek", <<>>)>>))>>,
                exports |-> << <<"dia-next", "dia-next">>, <<"dia-read", "dia-read">>, <<"dia-peek", "dia-peek">> >>])
LibNames == {"counter", "user", "top", "bare", "patcher", "reader", "dia"}

RECURSIVE RunSteps(_, _)
RunSteps(s, fuel) == IF s.status = "done" \/ fuel = 0 THEN s ELSE RunSteps(Step(s), fuel - 1)
RunIn(s, form, fr) == RunSteps(SubmitIn(s, form, fr), 300)
RECURSIVE RunBody(_, _, _, _)
RunBody(s, body, i, fr) == IF i > Len(body) THEN s ELSE RunBody(RunIn(s, body[i], fr), body, i + 1, fr)

\* st = [m (machine state), insts (name -> frame), loads (name -> how many times evaluated)]
RECURSIVE Load(_, _), LoadAll(_, _, _), BindExports(_, _, _, _, _)
BindExports(m, fr, exports, i, from) ==
  IF i > Len(exports) THEN m
  ELSE BindExports([m EXCEPT !.frames[fr].vars = Bind(@, exports[i][2], m.frames[from].vars[exports[i][1]])], fr, exports, i + 1, from)
LoadAll(st, names, i) == IF i > Len(names) THEN st ELSE LoadAll(Load(st, names[i]), names, i + 1)
Load(st, name) ==
  IF name \in DOMAIN st.insts /\ ~Reinstantiate THEN st
  ELSE LET lib == World[name]
           st1 == LoadAll(st, lib.imports, 1)                                   \* its own imports first
           fr == Cardinality(DOMAIN st1.m.frames) + 1
           m0 == [st1.m EXCEPT !.frames = (fr :> [parent |-> 0, vars |-> EmptyVars]) @@ @]
           RECURSIVE ImportInto(_, _)
           ImportInto(m, j) == IF j > Len(lib.imports) THEN m
                               ELSE ImportInto(BindExports(m, fr, World[lib.imports[j]].exports, 1, st1.insts[lib.imports[j]]), j + 1)
           m1 == ImportInto(m0, 1)
           m2 == RunBody(m1, lib.body, 1, fr)
       IN [m |-> m2, insts |-> (name :> fr) @@ st1.insts,
           loads |-> (name :> (IF name \in DOMAIN st1.loads THEN st1.loads[name] + 1 ELSE 1)) @@ st1.loads]
\* (import (lib) ...) evaluated by the program: bind the exported names in the global frame
ImportDecl(st, names, pfx) ==
  LET st1 == LoadAll(st, names, 1)
      RECURSIVE Each(_, _)
      Each(m, j) == IF j > Len(names) THEN m
                    ELSE Each(BindExports(m, GlobalFrame,
                                          [x \in DOMAIN World[names[j]].exports |-> <<World[names[j]].exports[x][1], pfx[j] \o World[names[j]].exports[x][2]>>],
                                          1, st1.insts[names[j]]), j + 1)
  IN [st1 EXCEPT !.m = Each(st1.m, 1)]

\* ---- programs: one import declaration, then operations
MainImportChoices == { <<<<"counter">>, <<"">>>>, <<<<"user">>, <<"">>>>, <<<<"counter", "user">>, <<"", "">>>>, <<<<"user", "counter">>, <<"", "">>>>,
                   <<<<"counter", "counter">>, <<"", "c:">>>>, <<<<"top", "counter">>, <<"", "">>>>, <<<<"counter", "user", "top">>, <<"", "", "">>>>, <<<<"bare", "counter">>, <<"", "">>>> }
MainOps == {Call("next!", <<>>), Call("use-counter", <<>>), Call("peek", <<>>), Call("show", <<>>), Call("leak", <<>>), Call("c:next!", <<>>),
        Define("helper", Thunk(<<Quote(MkSym("importer-helper"))>>)), Call("helper", <<>>),
        Define("next!", Thunk(<<Quote(MkSym("fake"))>>)), Define("importer-var", Num(5)),
        Call("bump", <<>>), Var("n"), Call("renamed-bump", <<>>), Var("a-val"), Var("b-val"), Call("get-ab", <<>>), Var("start"), Call("u-peek", <<>>), Call("u-next!", <<>>), Call("top-use", <<>>), Call("bare-leak", <<>>), Call("bare-set", <<>>), Var("importer-var")}

PatchImportChoices == { <<<<"patcher", "reader">>, <<"", "">>>>, <<<<"reader", "patcher", "counter">>, <<"", "", "">>>>, <<<<"counter", "patcher", "reader">>, <<"", "", "">>>>, <<<<"dia">>, <<"">>>>, <<<<"dia", "counter">>, <<"", "">>>> }
PatchOps == {Call("patch!", <<>>), Call("patched-peek", <<>>), Call("patched-show", <<>>), Call("read-peek", <<>>), Call("read-show", <<>>), Call("read-next", <<>>),
             Call("peek", <<>>), Call("show", <<>>), Call("next!", <<>>), Call("dia-next", <<>>), Call("dia-read", <<>>), Call("dia-peek", <<>>)}
ImportChoices == IF Family = "patch" THEN PatchImportChoices ELSE MainImportChoices
Ops == IF Family = "patch" THEN PatchOps ELSE MainOps

VARIABLES imp, st, hist
vars == <<imp, st, hist>>
Init == /\ imp \in ImportChoices
        /\ st = ImportDecl([m |-> InitState, insts |-> EmptyVars, loads |-> EmptyVars], imp[1], imp[2])
        /\ hist = <<>>
Do(op) == /\ Len(hist) < MaxOps
          /\ LET m2 == RunSteps(Submit(st.m, op), 300) IN
             /\ st' = [st EXCEPT !.m = m2]
             /\ hist' = Append(hist, [form |-> op, r |-> m2.result])
          /\ UNCHANGED imp
Next == \E op \in Ops : Do(op)
Spec == Init /\ [][Next]_vars

\* ---- properties
\* one instance per library and program
OneInstance == \A n \in DOMAIN st.loads : st.loads[n] = 1
\* the importer sees exactly the exported external names (besides its own definitions)
ExportedOnly ==
  hist = <<>> =>
    DOMAIN st.m.frames[GlobalFrame].vars =
      UNION {{imp[2][j] \o World[imp[1][j]].exports[x][2] : x \in DOMAIN World[imp[1][j]].exports} : j \in DOMAIN imp[1]}
\* a library frame has no parent: nothing of the importer is visible inside
LibraryFramesAreRoots == \A n \in DOMAIN st.insts : st.m.frames[st.insts[n]].parent = 0
\* the state kept inside (counter) is what all importers see: peek equals the number of next!/use-counter/c:next!/renamed-bump calls
CounterCalls == Len(SelectSeq(hist, LAMBDA h : h.r.k = "value" /\ h.form.t = "app" /\ h.form.f.t = "var"
                                                 /\ h.form.f.x \in {"next!", "use-counter", "c:next!", "renamed-bump"} /\ h.r.v.t = "int"))
Bumps == {Call(x, <<>>) : x \in {"next!", "use-counter", "c:next!", "renamed-bump", "u-next!", "top-use", "read-next", "dia-next", "dia-read"}}      \* (when they still denote the library's procedures)
Peeks == {Call("peek", <<>>), Call("bump", <<>>), Call("read-peek", <<>>), Call("dia-peek", <<>>)}       \* (the importer's bump is the library's peek)
SharedState == \A i \in DOMAIN hist :
   (hist[i].form \in Peeks /\ hist[i].r.k = "value") =>
      hist[i].r.v = MkInt(Len(SelectSeq(SubSeq(hist, 1, i), LAMBDA h : h.r.k = "value" /\ h.r.v.t = "int" /\ h.form \in Bumps)))
Emit == Len(hist) = MaxOps => PrintT(<<"VEC", ToJson([imports |-> imp[1], prefixes |-> imp[2], hist |-> hist,
                                                          world |-> [n \in LibNames |-> [name |-> n, imports |-> World[n].imports, body |-> World[n].body, exports |-> World[n].exports,
                                                                                          bare |-> ("bare" \in DOMAIN World[n]), solo |-> ("solo" \in DOMAIN World[n])]]])>>)
=============================================================================
