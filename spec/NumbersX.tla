------------------------------ MODULE NumbersX ------------------------------
(***************************************************************************)
(* The numeric tower of R7RS over exact integers, exact ratios and         *)
(* binary32 reals, for operands of any size an i32-based implementation    *)
(* can hold: exact arithmetic over BigInt rationals, inexact arithmetic    *)
(* through Binary32.  Used to judge results computed by the implementation *)
(* (C09, C10): Verdict(op, args, res).                                     *)
(*   number values:  [t |-> "int", v]  [t |-> "rat", n, d]  [t |-> "real", s, e, m] *)
(*   exact numbers inside: [n |-> big, d |-> big] with d > 0 (not reduced) *)
(***************************************************************************)
EXTENDS Binary32, TLC

IsExactV(v) == v.t \in {"int", "rat"}
IsRealV(v) == v.t = "real"
WellFormed(v) == v.t = "int" \/ (v.t = "rat" /\ v.d # 0) \/ v.t = "real"

\* exact value however the implementation holds it (sign of the denominator, common factors)
Q(n, d) == IF d.neg THEN [n |-> BigNeg(n), d |-> BigNeg(d)] ELSE [n |-> n, d |-> d]
QOf(v) == IF v.t = "int" THEN [n |-> BigOfInt(v.v), d |-> BigOfInt(1)]
          ELSE Q(BigOfInt(v.n), BigOfInt(v.d))
QAdd(a, b) == [n |-> BigAdd(BigMul(a.n, b.d), BigMul(b.n, a.d)), d |-> BigMul(a.d, b.d)]
QNeg(a) == [n |-> BigNeg(a.n), d |-> a.d]
QSub(a, b) == QAdd(a, QNeg(b))
QMul(a, b) == [n |-> BigMul(a.n, b.n), d |-> BigMul(a.d, b.d)]
QIsZero(a) == BigIsZero(a.n)
QDiv(a, b) == Q(BigMul(a.n, b.d), BigMul(a.d, b.n))        \* b # 0
QCmp(a, b) == BigCmp(BigMul(a.n, b.d), BigMul(b.n, a.d))    \* denominators positive
QEq(a, b) == QCmp(a, b) = 0
QAbs(a) == [n |-> BigAbs(a.n), d |-> a.d]
\* floor(n/d), d > 0, as a big integer
QFloor(a) == LET qr == MagDivMod(a.n.mag, a.d.mag) IN
             IF ~a.n.neg THEN Mk(FALSE, qr[1])
             ELSE IF qr[2] = <<>> THEN Mk(TRUE, qr[1]) ELSE Mk(TRUE, MagAdd(qr[1], <<1>>))
QCeiling(a) == BigNeg(QFloor(QNeg(a)))
QInt(b) == [n |-> b, d |-> BigOfInt(1)]
\* all components small enough for the "always exact" clause (|numerator|, |denominator| < 2^15)
SmallV(v) == IF v.t = "int" THEN v.v > -32768 /\ v.v < 32768
             ELSE IF v.t = "rat" THEN v.n > -32768 /\ v.n < 32768 /\ v.d > -32768 /\ v.d < 32768
             ELSE TRUE

\* exact -> binary32.  A ratio with a component beyond 2^24 may be converted in one step or component-wise.
RealOfQ(a) == RealOfRatio(a.n, a.d)
Big24 == BigOfInt(16777216)
RealsOfV(v) ==      \* the set of acceptable conversions
  IF v.t = "real" THEN {MkReal(v.s, v.e, v.m)}
  ELSE LET q == QOf(v) IN
       IF v.t = "rat" /\ (BigCmp(BigAbs(q.n), Big24) > 0 \/ BigCmp(q.d, Big24) > 0)
       THEN {RealOfQ(q), RealOfRatioTwoStep(q.n, q.d)}
       ELSE {RealOfQ(q)}
RealOfV(v) == IF v.t = "real" THEN MkReal(v.s, v.e, v.m) ELSE RealOfQ(QOf(v))

\* ---- mixed arithmetic: a partial result is either exact [x |-> TRUE, q] or inexact [x |-> FALSE, r]
\*      or an error [err |-> kind]
PX(q) == [x |-> TRUE, q |-> q]
PR(r) == [x |-> FALSE, r |-> r]
PErr(k) == [err |-> k]
IsErr(p) == "err" \in DOMAIN p
POfV(v) == IF v.t = "real" THEN PR(MkReal(v.s, v.e, v.m)) ELSE PX(QOf(v))
\* mode 1: an exact number is converted by one correctly rounded division; mode 2: numerator and denominator
\* are converted first and then divided (the two agree unless a component exceeds 2^24)
\* the implementation keeps every exact partial result in lowest terms with a positive denominator: the component-wise
\* conversion rounds THOSE components (625617846/4386 is held as 104269641/731)
QLowest(q) == LET g == MagGcd(q.n.mag, q.d.mag) IN
              IF g = <<>> \/ g = <<1>> THEN [n |-> Mk(q.n.neg # q.d.neg, q.n.mag), d |-> Mk(FALSE, q.d.mag)]
              ELSE [n |-> Mk(q.n.neg # q.d.neg, MagDivMod(q.n.mag, g)[1]), d |-> Mk(FALSE, MagDivMod(q.d.mag, g)[1])]
PRealM(p, mode) == IF ~p.x THEN p.r ELSE IF mode = 1 THEN RealOfQ(p.q)
                   ELSE LET l == QLowest(p.q) IN RealOfRatioTwoStep(l.n, l.d)
PReal(p) == PRealM(p, 1)
PBinM(op, a, b, mode) ==
  IF IsErr(a) THEN a ELSE IF IsErr(b) THEN b
  ELSE IF a.x /\ b.x
  THEN CASE op = "+" -> PX(QAdd(a.q, b.q))
         [] op = "-" -> PX(QSub(a.q, b.q))
         [] op = "*" -> PX(QMul(a.q, b.q))
         [] op = "/" -> IF QIsZero(b.q) THEN PErr("DivByZero") ELSE PX(QDiv(a.q, b.q))
  ELSE LET x == PRealM(a, mode)
           y == PRealM(b, mode)
       IN CASE op = "+" -> PR(RAdd(x, y)) [] op = "-" -> PR(RSub(x, y))
            [] op = "*" -> PR(RMul(x, y)) [] op = "/" -> PR(RDiv(x, y))
PBin(op, a, b) == PBinM(op, a, b, 1)
RECURSIVE PFold(_, _, _, _, _)
PFold(op, acc, args, i, mode) == IF i > Len(args) THEN acc ELSE PFold(op, PBinM(op, acc, POfV(args[i]), mode), args, i + 1, mode)
\* (+) = 0, (*) = 1, (- x) = 0 - x, (/ x) = 1 / x
ArithM(op, args, mode) ==
  IF op \in {"+", "*"} THEN PFold(op, PX(QInt(BigOfInt(IF op = "+" THEN 0 ELSE 1))), args, 1, mode)
  ELSE IF Len(args) = 1 THEN PBinM(op, PX(QInt(BigOfInt(IF op = "-" THEN 0 ELSE 1))), POfV(args[1]), mode)
  ELSE PFold(op, POfV(args[1]), args, 2, mode)
Arith(op, args) == ArithM(op, args, 1)
\* does some exact partial result of the fold leave the fixed-width exact representation (a lowest-terms component
\* beyond 32 bits)?  From there on the implementation continues with an inexact approximation of that partial result,
\* obtained by a conversion the property does not fix (one division in binary64 rounded again, or component-wise).
RECURSIVE OverflowFrom(_, _, _, _)
OverflowFrom(op, acc, args, i) ==      \* acc: an exact rational
  IF i > Len(args) \/ ~IsExactV(args[i]) THEN FALSE
  ELSE LET b == QOf(args[i])
           q == CASE op = "+" -> QAdd(acc, b) [] op = "-" -> QSub(acc, b) [] op = "*" -> QMul(acc, b)
                  [] op = "/" -> IF QIsZero(b) THEN acc ELSE QDiv(acc, b)
           l == QLowest(q)
       IN IF ~FitsI32(l.n) \/ ~FitsI32(l.d) THEN TRUE ELSE OverflowFrom(op, q, args, i + 1)
ExactOverflow(op, args) ==
  IF op \in {"+", "*"} THEN OverflowFrom(op, QInt(BigOfInt(IF op = "+" THEN 0 ELSE 1)), args, 1)
  ELSE IF Len(args) = 1 THEN FALSE
  ELSE IsExactV(args[1]) /\ OverflowFrom(op, QOf(args[1]), args, 2)

\* ---- order
\* mode: how an exact operand is converted when it meets an inexact one (1: one correctly rounded division,
\* 2: component-wise - they differ only for ratios with a component above 2^24, soundness rule 6)
PCmpM(a, b, mode) ==      \* -1, 0, 1, or 2 when unordered (NaN)
  IF a.x /\ b.x THEN QCmp(a.q, b.q)
  ELSE LET x == PRealM(a, mode) y == PRealM(b, mode) IN IF IsNaN(x) \/ IsNaN(y) THEN 2 ELSE RCmp(x, y)
PCmp(a, b) == PCmpM(a, b, 1)
RelHolds(op, c) == CASE op = "=" -> c = 0 [] op = "<" -> c = -1 [] op = ">" -> c = 1
                     [] op = "<=" -> c \in {-1, 0} [] op = ">=" -> c \in {0, 1}
RECURSIVE ChainHoldsM(_, _, _, _)
ChainHoldsM(op, args, i, mode) == IF i >= Len(args) THEN TRUE
                                  ELSE RelHolds(op, PCmpM(POfV(args[i]), POfV(args[i + 1]), mode)) /\ ChainHoldsM(op, args, i + 1, mode)
ChainHolds(op, args, i) == ChainHoldsM(op, args, i, 1)

----------------------------------------------------------------------------
(* Verdicts.  res: [k |-> "value", v |-> value] | [k |-> "error", kind |-> ...] | other (panic, abort). *)
ResIsExactEqual(res, q) == res.k = "value" /\ IsExactV(res.v) /\ WellFormed(res.v) /\ QEq(QOf(res.v), q)
ResIsReal(res, r) == res.k = "value" /\ IsRealV(res.v) /\
                     LET z == MkReal(res.v.s, res.v.e, res.v.m) IN (IsNaN(z) /\ IsNaN(r)) \/ z = r
ResIsBool(res, b) == res.k = "value" /\ res.v.t = "bool" /\ res.v.b = b
ResIsError(res, kind) == res.k = "error" /\ res.kind = kind
Reported(res) == res.k \in {"value", "error"}      \* not a panic / abort

AllExact(args) == \A i \in DOMAIN args : IsExactV(args[i])
AllSmall(args) == \A i \in DOMAIN args : SmallV(args[i])
AllWF(args) == \A i \in DOMAIN args : WellFormed(args[i])

ArithVerdict(op, args, res) ==
  LET p == Arith(op, args) IN
  IF IsErr(p) THEN ResIsError(res, p.err)                          \* division by exact zero is an error
  ELSE IF p.x
  THEN (IF AllSmall(args) /\ Len(args) <= 2
        THEN ResIsExactEqual(res, p.q)                             \* always exact
        ELSE Reported(res) /\ (res.k = "value" /\ IsExactV(res.v) => ResIsExactEqual(res, p.q)))   \* never a wrong exact number
  ELSE \* an inexact operand: the IEEE result on the converted operands
       \/ ResIsReal(res, p.r)
       \* an exact partial result with a component above 2^24 may be converted component-wise (soundness rule 6)
       \/ ResIsReal(res, ArithM(op, args, 2).r)
       \* r7rs 6.2.6: an exact zero divisor "is an error" also for an inexact dividend - signalling it is allowed
       \/ (op = "/" /\ ResIsError(res, "DivByZero") /\
           \E i \in DOMAIN args : (i > 1 \/ Len(args) = 1) /\ IsExactV(args[i]) /\ QIsZero(QOf(args[i])))
       \/ (~AllSmall(args) /\ res.k = "value" /\ IsRealV(res.v))   \* big exact operands: conversion order / intermediate overflow not fixed
       \* an exact partial result that does not fit: the fold goes on from an approximation the property does not fix
       \/ (ExactOverflow(op, args) /\ res.k = "value" /\ IsRealV(res.v))

UnaryVerdict(op, a, res) ==
  IF IsExactV(a)
  THEN LET q == QOf(a)
           expected == CASE op = "abs" -> QAbs(q) [] op = "floor" -> QInt(QFloor(q)) [] op = "ceiling" -> QInt(QCeiling(q))
       IN IF SmallV(a) THEN ResIsExactEqual(res, expected)
          ELSE Reported(res) /\ (res.k = "value" /\ IsExactV(res.v) => ResIsExactEqual(res, expected))
  ELSE LET x == RealOfV(a) IN
       ResIsReal(res, CASE op = "abs" -> RAbs(x) [] op = "floor" -> RFloor(x) [] op = "ceiling" -> RCeiling(x))

\* floor-quotient / floor-remainder on exact operands: n = d q + r, q = floor(n / d)
FloorDivVerdict(op, a, b, res) ==
  IF AllExact(<<a, b>>)
  THEN LET n == QOf(a) d == QOf(b) IN
       IF QIsZero(d) THEN ResIsError(res, "DivByZero")
       ELSE LET q == QInt(QFloor(QDiv(n, d)))
                r == QSub(n, QMul(d, q))
                expected == IF op = "floor-quotient" THEN q ELSE r
            IN IF AllSmall(<<a, b>>) THEN ResIsExactEqual(res, expected)
               ELSE Reported(res) /\ (res.k = "value" /\ IsExactV(res.v) => ResIsExactEqual(res, expected))
  ELSE \* inexact operand: contagion only (the statement fixes the exact case)
       Reported(res) /\ (res.k = "value" => IsRealV(res.v))

CompareVerdict(op, args, res) == ResIsBool(res, ChainHolds(op, args, 1)) \/ ResIsBool(res, ChainHoldsM(op, args, 1, 2))

RECURSIVE ExtremeM(_, _, _, _, _)
ExtremeM(wantMax, best, args, i, mode) ==
  IF i > Len(args) THEN best
  ELSE LET c == PCmpM(POfV(args[i]), POfV(best), mode) IN
       ExtremeM(wantMax, IF (wantMax /\ c = 1) \/ (~wantMax /\ c = -1) THEN args[i] ELSE best, args, i + 1, mode)
Extreme(wantMax, best, args, i) == ExtremeM(wantMax, best, args, i, 1)
MinMaxVerdict(op, args, res) ==
  LET e == Extreme(op = "max", args[1], args, 2)
      e2 == ExtremeM(op = "max", args[1], args, 2, 2) IN
  IF AllExact(args) THEN ResIsExactEqual(res, QOf(e))
  ELSE IF \E i \in DOMAIN args : args[i].t = "real" /\ IsNaN(MkReal(args[i].s, args[i].e, args[i].m)) THEN Reported(res)
  ELSE \* inexact if any argument is inexact; numerically the extreme argument
       res.k = "value" /\ IsRealV(res.v) /\
       LET z == MkReal(res.v.s, res.v.e, res.v.m) IN
       \E r \in RealsOfV(e) \cup RealsOfV(e2) : RCmp(z, r) = 0

EqvVerdict(a, b, res) ==
  IF IsExactV(a) /\ IsExactV(b) THEN ResIsBool(res, QEq(QOf(a), QOf(b)))
  ELSE IF IsRealV(a) /\ IsRealV(b)
       THEN (IF IsNaN(RealOfV(a)) \/ IsNaN(RealOfV(b)) \/ (IsZeroR(RealOfV(a)) /\ IsZeroR(RealOfV(b))) THEN Reported(res)
             ELSE ResIsBool(res, RCmp(RealOfV(a), RealOfV(b)) = 0))
  ELSE ResIsBool(res, FALSE)                                  \* different exactness

Verdict(op, args, res) ==
  IF ~AllWF(args) THEN TRUE                                   \* the operand itself is malformed (reported where it was produced)
  ELSE CASE op \in {"+", "-", "*", "/"} -> ArithVerdict(op, args, res)
         [] op \in {"abs", "floor", "ceiling"} -> UnaryVerdict(op, args[1], res)
         [] op \in {"floor-quotient", "floor-remainder"} -> FloorDivVerdict(op, args[1], args[2], res)
         [] op \in {"=", "<", ">", "<=", ">="} -> CompareVerdict(op, args, res)
         [] op \in {"max", "min"} -> MinMaxVerdict(op, args, res)
         [] op = "eqv?" -> EqvVerdict(args[1], args[2], res)
=============================================================================
