------------------------------ MODULE MCInterp ------------------------------
(***************************************************************************)
(* C19: two interpreter instances on one thread.  Every variable of an     *)
(* instance is indexed by the instance; no action of one instance mentions *)
(* the other.  TLC explores every interleaving of two short programs with  *)
(* colliding names and checks non-interference: the per-form results of    *)
(* each instance are those of the same program run alone.                  *)
(* SharedSyntax = TRUE gives the model of the implementation as found (one *)
(* syntax table per thread): TLC must reject it.                           *)
(* Each instance has its own program directory; the library (conf) exists  *)
(* in both with different contents, (onlya) only in A's.  SharedFiles =    *)
(* TRUE is a model with one per-thread cache of library files keyed by the *)
(* library name: TLC must reject it as well.                               *)
(***************************************************************************)
EXTENDS Machine, Programs, Json, SequencesExt

CONSTANTS MaxLen, SharedSyntax, SharedFiles, Family

DefSyntax(kw, k) == [t |-> "defsyntax", kw |-> kw, k |-> k]
MacroUse(kw, arg) == [t |-> "macrouse", kw |-> kw, arg |-> arg]
ImportFile(lib) == [t |-> "importfile", lib |-> lib]
\* what the library files of an instance's program directory export: library -> value of its one export
Files(who) == IF who = 1 THEN ("conf" :> 100) @@ ("onlya" :> 1) @@ ("shared" :> 0) ELSE ("conf" :> 200) @@ ("shared" :> 0)
ExportOf(lib) == IF lib = "conf" THEN "answer" ELSE "only-a"
Alphabet(who) ==     \* the same names in both programs; what is defined differs by instance
  IF Family = "files"
  \* (the library files also define a macro m for their own use: syntax defined inside a library is not visible to
  \*  any importer, let alone to another instance - (m 5) is an unbound variable everywhere)
  \* (shared) is the SAME text in both directories and keeps a counter: each instance has its own counter all the same
  THEN {ImportFile("conf"), ImportFile("onlya"), Var("answer"), Define("answer", Num(IF who = 1 THEN 1 ELSE 2)), Var("only-a"), MacroUse("m", Num(5)),
        ImportFile("shared"), Call("next!", <<>>)}
  ELSE
  {Define("x", Num(IF who = 1 THEN 1 ELSE 2)),
   Set("x", Call("+", <<Var("x"), Num(10)>>)),
   Var("x"),
   DefSyntax("m", IF who = 1 THEN "from-a" ELSE "from-b"),
   MacroUse("m", Num(5)),
   DefSyntax("cond", IF who = 1 THEN "cond-a" ELSE "cond-b"),
   MacroUse("cond", Num(7)),
   Call("car", <<Num(5)>>)}
\* Ruschm accepts import declarations only before the first other form of a program
ImportsFirst(p) == \A i \in DOMAIN p : p[i].t = "importfile" => \A j \in 1..(i - 1) : p[j].t = "importfile"
ProgramsOf(who) == {p \in UNION {[1..n -> Alphabet(who)] : n \in 1..MaxLen} : ImportsFirst(p)}

RECURSIVE RunSteps(_, _)
RunSteps(s, fuel) == IF s.status = "done" \/ fuel = 0 THEN s ELSE RunSteps(Step(s), fuel - 1)
\* files: the library files this evaluation sees (its own directory's, or - SharedFiles - whatever a cache says)
RunForm(s, form, files) ==
  IF form.t = "importfile"
  THEN IF form.lib = "shared" /\ form.lib \in DOMAIN files
       THEN \* the library's own state (not visible to the importer under that name in Ruschm; here a reserved name) and its procedure
            LET s1 == RunSteps(Submit(s, Define("%shared-n", Num(0))), 300) IN
            RunSteps(Submit(s1, Define("next!", Lam(<<>>, "", <<>>, <<Set("%shared-n", Call("+", <<Var("%shared-n"), Num(1)>>)), Var("%shared-n")>>))), 300)
       ELSE IF form.lib \in DOMAIN files THEN RunSteps(Submit(s, Define(ExportOf(form.lib), Num(files[form.lib]))), 300)
       ELSE Fail([s EXCEPT !.out = <<>>], "NotFound")
  ELSE RunSteps(Submit(s, form), 300)
RECURSIVE Alone(_, _, _, _, _)
Alone(s, prog, i, acc, who) == IF i > Len(prog) THEN acc
                               ELSE LET s2 == RunForm(s, prog[i], Files(who)) IN Alone(s2, prog, i + 1, Append(acc, s2.result), who)

VARIABLES pa, pb, ia, ib, ma, mb, ra, rb, sched, cache
vars == <<pa, pb, ia, ib, ma, mb, ra, rb, sched, cache>>
Init == /\ pa \in ProgramsOf(1) /\ pb \in ProgramsOf(2)
        /\ ia = 0 /\ ib = 0 /\ ma = InitState /\ mb = InitState /\ ra = <<>> /\ rb = <<>> /\ sched = <<>> /\ cache = <<>>

\* the files an instance sees: with SharedFiles a library some instance has loaded before is served from the cache
Seen(who) == IF SharedFiles THEN cache @@ Files(who) ELSE Files(who)
CacheAfter(who, form) == IF SharedFiles /\ form.t = "importfile" /\ form.lib \in DOMAIN Seen(who)
                         THEN (form.lib :> Seen(who)[form.lib]) @@ cache ELSE cache
\* instance A evaluates its next form.  With SharedSyntax the syntax table is one object: A starts from the
\* table B last left, and its own changes are visible to B afterwards.
StepA == /\ ia < Len(pa)
         /\ LET start == IF SharedSyntax THEN [ma EXCEPT !.syn = mb.syn] ELSE ma
                m2 == RunForm(start, pa[ia + 1], Seen(1))
            IN /\ ma' = m2 /\ ra' = Append(ra, m2.result)
               /\ mb' = IF SharedSyntax THEN [mb EXCEPT !.syn = m2.syn] ELSE mb
         /\ cache' = CacheAfter(1, pa[ia + 1])
         /\ ia' = ia + 1 /\ sched' = Append(sched, 1) /\ UNCHANGED <<pa, pb, ib, rb>>
StepB == /\ ib < Len(pb)
         /\ LET start == IF SharedSyntax THEN [mb EXCEPT !.syn = ma.syn] ELSE mb
                m2 == RunForm(start, pb[ib + 1], Seen(2))
            IN /\ mb' = m2 /\ rb' = Append(rb, m2.result)
               /\ ma' = IF SharedSyntax THEN [ma EXCEPT !.syn = m2.syn] ELSE ma
         /\ cache' = CacheAfter(2, pb[ib + 1])
         /\ ib' = ib + 1 /\ sched' = Append(sched, 2) /\ UNCHANGED <<pa, pb, ia, ra>>
Next == StepA \/ StepB
Spec == Init /\ [][Next]_vars

Finished == ia = Len(pa) /\ ib = Len(pb)
\* non-interference: whatever the interleaving, each instance behaves as if it were alone
Isolated == Finished => (ra = Alone(InitState, pa, 1, <<>>, 1) /\ rb = Alone(InitState, pb, 1, <<>>, 2))
\* (at every point the results so far are a prefix of the results alone)
IsolatedPrefix == /\ ra = SubSeq(Alone(InitState, pa, 1, <<>>, 1), 1, ia)
                  /\ rb = SubSeq(Alone(InitState, pb, 1, <<>>, 2), 1, ib)
Emit == Finished => PrintT(<<"VEC", ToJson([pa |-> pa, pb |-> pb, sched |-> sched, ra |-> ra, rb |-> rb])>>)
=============================================================================
