------------------------------ MODULE MCInterp ------------------------------
(***************************************************************************)
(* C19: two interpreter instances on one thread.  Every variable of an     *)
(* instance is indexed by the instance; no action of one instance mentions *)
(* the other.  TLC explores every interleaving of two short programs with  *)
(* colliding names and checks non-interference: the per-form results of    *)
(* each instance are those of the same program run alone.                  *)
(* SharedSyntax = TRUE gives the model of the implementation as found (one *)
(* syntax table per thread): TLC must reject it.                           *)
(***************************************************************************)
EXTENDS Machine, Programs, Json, SequencesExt

CONSTANTS MaxLen, SharedSyntax

DefSyntax(kw, k) == [t |-> "defsyntax", kw |-> kw, k |-> k]
MacroUse(kw, arg) == [t |-> "macrouse", kw |-> kw, arg |-> arg]
Alphabet(who) ==     \* the same names in both programs; what is defined differs by instance
  {Define("x", Num(IF who = 1 THEN 1 ELSE 2)),
   Set("x", Call("+", <<Var("x"), Num(10)>>)),
   Var("x"),
   DefSyntax("m", IF who = 1 THEN "from-a" ELSE "from-b"),
   MacroUse("m", Num(5)),
   DefSyntax("cond", IF who = 1 THEN "cond-a" ELSE "cond-b"),
   MacroUse("cond", Num(7)),
   Call("car", <<Num(5)>>)}
ProgramsOf(who) == UNION {[1..n -> Alphabet(who)] : n \in 1..MaxLen}

RECURSIVE RunSteps(_, _)
RunSteps(s, fuel) == IF s.status = "done" \/ fuel = 0 THEN s ELSE RunSteps(Step(s), fuel - 1)
RunForm(s, form) == RunSteps(Submit(s, form), 300)
RECURSIVE Alone(_, _, _, _)
Alone(s, prog, i, acc) == IF i > Len(prog) THEN acc
                          ELSE LET s2 == RunForm(s, prog[i]) IN Alone(s2, prog, i + 1, Append(acc, s2.result))

VARIABLES pa, pb, ia, ib, ma, mb, ra, rb, sched
vars == <<pa, pb, ia, ib, ma, mb, ra, rb, sched>>
Init == /\ pa \in ProgramsOf(1) /\ pb \in ProgramsOf(2)
        /\ ia = 0 /\ ib = 0 /\ ma = InitState /\ mb = InitState /\ ra = <<>> /\ rb = <<>> /\ sched = <<>>

\* instance A evaluates its next form.  With SharedSyntax the syntax table is one object: A starts from the
\* table B last left, and its own changes are visible to B afterwards.
StepA == /\ ia < Len(pa)
         /\ LET start == IF SharedSyntax THEN [ma EXCEPT !.syn = mb.syn] ELSE ma
                m2 == RunForm(start, pa[ia + 1])
            IN /\ ma' = m2 /\ ra' = Append(ra, m2.result)
               /\ mb' = IF SharedSyntax THEN [mb EXCEPT !.syn = m2.syn] ELSE mb
         /\ ia' = ia + 1 /\ sched' = Append(sched, 1) /\ UNCHANGED <<pa, pb, ib, rb>>
StepB == /\ ib < Len(pb)
         /\ LET start == IF SharedSyntax THEN [mb EXCEPT !.syn = ma.syn] ELSE mb
                m2 == RunForm(start, pb[ib + 1])
            IN /\ mb' = m2 /\ rb' = Append(rb, m2.result)
               /\ ma' = IF SharedSyntax THEN [ma EXCEPT !.syn = m2.syn] ELSE ma
         /\ ib' = ib + 1 /\ sched' = Append(sched, 2) /\ UNCHANGED <<pa, pb, ia, ra>>
Next == StepA \/ StepB
Spec == Init /\ [][Next]_vars

Finished == ia = Len(pa) /\ ib = Len(pb)
\* non-interference: whatever the interleaving, each instance behaves as if it were alone
Isolated == Finished => (ra = Alone(InitState, pa, 1, <<>>) /\ rb = Alone(InitState, pb, 1, <<>>))
\* (at every point the results so far are a prefix of the results alone)
IsolatedPrefix == /\ ra = SubSeq(Alone(InitState, pa, 1, <<>>), 1, ia)
                  /\ rb = SubSeq(Alone(InitState, pb, 1, <<>>), 1, ib)
Emit == Finished => PrintT(<<"VEC", ToJson([pa |-> pa, pb |-> pb, sched |-> sched, ra |-> ra, rb |-> rb])>>)
=============================================================================
