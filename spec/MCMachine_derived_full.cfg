CONSTANTS
  GC = FALSE
  Broken = "none"
  Family = "derived-full"
  MaxKont = 12
SPECIFICATION Spec
INVARIANT TickOnce
INVARIANT NoError
INVARIANT KontBounded
INVARIANT SingleLaw
INVARIANT Emit
CHECK_DEADLOCK FALSE
