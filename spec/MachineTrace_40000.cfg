CONSTANTS
  GC = FALSE
  Broken = "none"
  MaxSteps = 40000
SPECIFICATION TSpec
INVARIANT TDone
CHECK_DEADLOCK FALSE
