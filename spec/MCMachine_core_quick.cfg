CONSTANTS
  GC = FALSE
  NonTailIf = FALSE
  Family = "core-quick"
  MaxKont = 16
SPECIFICATION Spec
INVARIANT SpellingLaw
INVARIANT FaultLaw
INVARIANT KontBounded
INVARIANT Emit
CHECK_DEADLOCK FALSE
