---------------------------- MODULE NumbersTrace ----------------------------
(* Trace validation for C09/C10: every recorded application of a numeric procedure by the real
   interpreter - operands as the implementation holds them, and its result - is judged by
   NumbersX!Verdict.  Events: {"op":..,"args":[number...],"res":outcome,"id":n} *)
EXTENDS NumbersX, Json, IOUtils

Rec == ndJsonDeserialize(IOEnv.TRACE)
VARIABLES l, bad
Init == l = 1 /\ bad = 0
Next == /\ l <= Len(Rec)
        /\ LET e == Rec[l] IN
           IF Verdict(e.op, e.args, e.res) THEN bad' = bad
           ELSE PrintT(<<"MISMATCH", ToJson([event |-> l, id |-> e.id, op |-> e.op, args |-> e.args, observed |-> e.res])>>) /\ bad' = bad + 1
        /\ l' = l + 1
Done == l = Len(Rec) + 1 => PrintT(<<"DONE", ToJson([events |-> Len(Rec), bad |-> bad])>>)
=============================================================================
