CONSTANT MaxLen = 4
INIT Init
NEXT Next
INVARIANT Total
CHECK_DEADLOCK FALSE
