CONSTANTS
  Mode = "single"
  MaxPat = 2
  MaxUse = 3
  Emitting = FALSE
INIT Init
NEXT Next
INVARIANT Laws
INVARIANT Emit
CHECK_DEADLOCK FALSE
