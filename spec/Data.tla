-------------------------------- MODULE Data --------------------------------
(***************************************************************************)
(* Scheme values as tagged records (so TLC never compares values of        *)
(* different kinds directly).                                              *)
(*   [t |-> "int", v]  [t |-> "rat", n, d]  [t |-> "real", s, e, m]        *)
(*   [t |-> "bool", b] [t |-> "char", c] [t |-> "str", cs] [t |-> "sym", x]*)
(*   [t |-> "nil"]     [t |-> "pair", a, d]                                *)
(*   [t |-> "vec", id]           a vector object; contents live in vecs    *)
(*   [t |-> "vlit", xs]          a vector literal inside quoted data       *)
(*   [t |-> "clo", lam, env]     closure: lambda expression + frame id     *)
(*   [t |-> "prim", name]        builtin / library procedure               *)
(*   [t |-> "unspec"]            unspecified value: matches anything       *)
(* Observable form (what a program/driver can see): vectors by content     *)
(* [t |-> "vec", xs], procedures as [t |-> "proc"].                        *)
(***************************************************************************)
EXTENDS Naturals, Integers, Sequences, FiniteSets, TLC

MkInt(n) == [t |-> "int", v |-> n]
MkBool(b) == [t |-> "bool", b |-> b]      \* not "v": TLC cannot compare an integer field with a boolean one
MkSym(x) == [t |-> "sym", x |-> x]
Nil == [t |-> "nil"]
Cons(a, d) == [t |-> "pair", a |-> a, d |-> d]
Unspec == [t |-> "unspec"]
True == MkBool(TRUE)
False == MkBool(FALSE)

Truthy(v) == ~(v.t = "bool" /\ v.b = FALSE)     \* only #f counts as false
IsPair(v) == v.t = "pair"
IsNumber(v) == v.t \in {"int", "rat", "real"}
IsExact(v) == v.t \in {"int", "rat"}
IsProc(v) == v.t \in {"clo", "prim"}

RECURSIVE ListFromSeq(_, _)
ListFromSeq(s, tl) == IF s = <<>> THEN tl ELSE Cons(Head(s), ListFromSeq(Tail(s), tl))
MkList(s) == ListFromSeq(s, Nil)

RECURSIVE IsList(_)
IsList(v) == IF v.t = "nil" THEN TRUE ELSE IF v.t = "pair" THEN IsList(v.d) ELSE FALSE

\* elements of the spine (proper or improper) and the final cdr
RECURSIVE Elems(_)
Elems(v) == IF v.t = "pair" THEN <<v.a>> \o Elems(v.d) ELSE <<>>
RECURSIVE LastCdr(_)
LastCdr(v) == IF v.t = "pair" THEN LastCdr(v.d) ELSE v

Max(a, b) == IF a >= b THEN a ELSE b
Min(a, b) == IF a <= b THEN a ELSE b
Abs(a) == IF a < 0 THEN -a ELSE a
RECURSIVE Gcd(_, _)
Gcd(a, b) == IF b = 0 THEN a ELSE Gcd(b, a % b)

\* exact rationals in lowest terms with positive denominator; integers stay integers
MkRat(n, d) ==
  LET g == Gcd(Abs(n), Abs(d))
      nn == (IF d < 0 THEN -n ELSE n) \div g
      dd == Abs(d) \div g
  IN IF dd = 1 THEN MkInt(nn) ELSE [t |-> "rat", n |-> nn, d |-> dd]
NumOf(v) == IF v.t = "int" THEN v.v ELSE v.n
DenOf(v) == IF v.t = "int" THEN 1 ELSE v.d
\* numeric equality of exact numbers in any representation (2/4 = 1/2, 1/-2 = -1/2)
ExactEq(a, b) == NumOf(a) * DenOf(b) = NumOf(b) * DenOf(a)

(* structural agreement between a value the specification computed (in observable form) and one
   the implementation produced: Unspec matches anything, exact numbers are compared numerically *)
RECURSIVE Match(_, _)
Match(s, o) ==
  IF s.t = "unspec" THEN TRUE
  ELSE IF IsExact(s) THEN IsExact(o) /\ DenOf(o) # 0 /\ ExactEq(s, o)
  ELSE IF s.t # o.t THEN FALSE
  ELSE CASE s.t = "pair" -> Match(s.a, o.a) /\ Match(s.d, o.d)
         [] s.t = "vec"  -> Len(s.xs) = Len(o.xs) /\ \A i \in DOMAIN s.xs : Match(s.xs[i], o.xs[i])
         [] s.t = "real" -> s.s = o.s /\ s.e = o.e /\ s.m = o.m
         [] OTHER -> s = o
=============================================================================
