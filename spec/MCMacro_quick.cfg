CONSTANTS
  Mode = "single"
  MaxPat = 1
  MaxUse = 3
  Emitting = TRUE
INIT Init
NEXT Next
INVARIANT Laws
INVARIANT Emit
CHECK_DEADLOCK FALSE
