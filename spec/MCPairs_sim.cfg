CONSTANTS
  MaxOps = 6
  Broken = "none"
INIT Init
NEXT Next
INVARIANT Laws
INVARIANT Emit
CHECK_DEADLOCK FALSE
