CONSTANTS
  Libs = {1, 2, 3, 4, 5, 6}
  NoLib = 0
  MaxAttempts = 100000
  AsImplemented = FALSE
SPECIFICATION TSpec
INVARIANT TDone
INVARIANT TInv
CHECK_DEADLOCK FALSE
