CONSTANTS
  GC = FALSE
  Broken = "none"
  MaxOps = 3
  Family = "main"
  Reinstantiate = FALSE
SPECIFICATION Spec
INVARIANT OneInstance
INVARIANT ExportedOnly
INVARIANT LibraryFramesAreRoots
INVARIANT SharedState
INVARIANT Emit
CHECK_DEADLOCK FALSE
