------------------------------ MODULE MCMachine ------------------------------
(* TLC runs every program of a TLA+-defined family on the reference machine, checks the laws
   below in every state, and prints one vector per program for replay on the real interpreter. *)
EXTENDS Machine, Programs, Json, SequencesExt

CONSTANTS Family,     \* which family of Programs.tla
          MaxKont     \* bound on the continuation depth asserted for this family

Fam == CASE Family = "derived-quick" -> DerivedFamily(FALSE)
         [] Family = "derived-full"  -> DerivedFamily(TRUE)
         [] Family = "core-quick"    -> CoreFamily(2)
         [] Family = "core-full"     -> CoreFamily(3)
         [] Family = "fault"         -> FaultFamily
         [] Family = "lists-quick"   -> ListFamily(FALSE)
         [] Family = "lists-full"    -> ListFamily(TRUE)
         [] Family = "cli"           -> CliFamily
         [] Family = "tail-fin-1"    -> TailFinFamily(1, {0, 1, 3})
         [] Family = "tail-fin-2"    -> TailFinFamily(2, {3})
         [] Family = "tail-inf-1"    -> TailInfFamily(1)
         [] Family = "tail-inf-2"    -> TailInfFamily(2)
FamSeq == SetToSeq(Fam)

VARIABLES pid, pc, m, results
vars == <<pid, pc, m, results>>

Init == pid \in 1..Len(FamSeq) /\ pc = 0 /\ m = InitState /\ results = <<>>

Forms == FamSeq[pid].forms

Run == m.status = "run" /\ m' = Step(m) /\ UNCHANGED <<pid, pc, results>>
Finish == /\ m.status = "done" /\ pc > 0 /\ Len(results) < pc
          /\ results' = Append(results, [r |-> m.result, out |-> m.out])
          /\ UNCHANGED <<pid, pc, m>>
\* a program FILE stops at the first failing form (C17); the other families go on (one interpreter, form by form)
StopsAtFailure == FamSeq[pid].tag[1] = "cli"
Halted == StopsAtFailure /\ results # <<>> /\ results[Len(results)].r.k = "error"
NextForm == /\ m.status = "done" /\ Len(results) = pc /\ pc < Len(Forms) /\ ~Halted
            /\ pc' = pc + 1 /\ m' = Submit(m, Forms[pc + 1])
            /\ UNCHANGED <<pid, results>>
Next == Run \/ Finish \/ NextForm
Spec == Init /\ [][Next]_vars

Done == (pc = Len(Forms) \/ Halted) /\ Len(results) = pc

----------------------------------------------------------------------------
(* laws *)
\* each ticking sub-form is evaluated at most once
TickOnce == \A i, j \in DOMAIN m.out : i # j => m.out[i] # m.out[j]
\* these families contain no faulting program
NoError == m.result.k # "error"
KontBounded == Len(m.kont) <= MaxKont

(* R7RS 4.2, stated independently of the machine's rules, for the un-nested forms at top level:
   which sub-forms run, in which order, and the value *)
T(v) == Truthy(v)
L(s) == [i \in DOMAIN s |-> MkInt(s[i])]
ExpectedSingle(k, a) ==
  CASE k = "begin"   -> [ticks |-> L(<<1, 2, 3>>), v |-> MkInt(13)]
    [] k = "let"     -> [ticks |-> L(<<1, 2, 3>>), v |-> MkList(<<MkInt(11), MkInt(12), MkInt(13)>>)]
    [] k = "letstar" -> [ticks |-> L(<<1, 2, 3>>), v |-> MkList(<<MkInt(11), MkList(<<MkInt(11), MkInt(12)>>), MkInt(13)>>)]
    [] k = "and"     -> IF ~T(a[1]) THEN [ticks |-> L(<<1>>), v |-> a[1]]
                        ELSE IF ~T(a[2]) THEN [ticks |-> L(<<1, 2>>), v |-> a[2]]
                        ELSE [ticks |-> L(<<1, 2, 3>>), v |-> MkInt(13)]
    [] k = "or"      -> IF T(a[1]) THEN [ticks |-> L(<<1>>), v |-> a[1]]
                        ELSE IF T(a[2]) THEN [ticks |-> L(<<1, 2>>), v |-> a[2]]
                        ELSE [ticks |-> L(<<1, 2, 3>>), v |-> MkInt(13)]
    [] k = "when"    -> IF T(a[1]) THEN [ticks |-> L(<<1, 2, 3>>), v |-> MkInt(13)] ELSE [ticks |-> L(<<1>>), v |-> Unspec]
    [] k = "unless"  -> IF ~T(a[1]) THEN [ticks |-> L(<<1, 2, 3>>), v |-> MkInt(13)] ELSE [ticks |-> L(<<1>>), v |-> Unspec]
    [] k = "cond"    -> IF T(a[1]) THEN [ticks |-> L(<<1, 2>>), v |-> MkInt(12)]
                        ELSE IF T(a[3]) THEN [ticks |-> L(<<1, 3, 8, 9>>), v |-> MkList(<<a[3]>>)]
                        ELSE [ticks |-> L(<<1, 3, 4>>), v |-> MkInt(14)]
    [] k = "cond3"   -> IF T(a[1]) THEN [ticks |-> L(<<1, 2>>), v |-> MkInt(12)]
                        ELSE IF T(a[3]) THEN [ticks |-> L(<<1, 3, 8, 9>>), v |-> MkList(<<a[3]>>)]
                        ELSE [ticks |-> L(<<1, 3>>), v |-> Unspec]
    [] k = "case3"   -> IF a[1].v = 1 THEN [ticks |-> L(<<1, 2>>), v |-> MkInt(12)]
                        ELSE IF a[1].v = 3 THEN [ticks |-> L(<<1, 8, 9>>), v |-> MkList(<<MkInt(3)>>)]
                        ELSE [ticks |-> L(<<1>>), v |-> Unspec]
    [] k = "cond2"   -> IF T(a[1]) THEN [ticks |-> L(<<1>>), v |-> a[1]]
                        ELSE IF T(a[2]) THEN [ticks |-> L(<<1, 2, 8, 3>>), v |-> MkInt(13)]
                        ELSE [ticks |-> L(<<1, 2>>), v |-> Unspec]
    [] k = "case"    -> IF a[1].v = 1 THEN [ticks |-> L(<<1, 2>>), v |-> MkInt(12)]
                        ELSE IF a[1].v = 3 THEN [ticks |-> L(<<1, 8, 9>>), v |-> MkList(<<MkInt(3)>>)]
                        ELSE [ticks |-> L(<<1, 3, 4>>), v |-> MkInt(14)]
    [] k = "case2"   -> IF a[1].v = 1 THEN [ticks |-> L(<<1, 2>>), v |-> MkInt(12)]
                        ELSE IF a[1].v = 3 THEN [ticks |-> L(<<1, 3>>), v |-> MkInt(13)]
                        ELSE [ticks |-> L(<<1>>), v |-> Unspec]
    [] k = "case1e"  -> [ticks |-> L(<<1, 2>>), v |-> MkInt(12)]
    [] k = "case1"   -> IF a[1].v \in {1, 3} THEN [ticks |-> L(<<1, 2>>), v |-> MkInt(12)] ELSE [ticks |-> L(<<1>>), v |-> Unspec]
    [] k = "case1a"  -> IF a[1].v \in {1, 3} THEN [ticks |-> L(<<1, 8, 9>>), v |-> MkList(<<a[1]>>)] ELSE [ticks |-> L(<<1>>), v |-> Unspec]
    [] k = "case1ea" -> [ticks |-> L(<<1, 8, 9>>), v |-> MkList(<<a[1]>>)]
    [] k = "cond1"   -> IF T(a[1]) THEN [ticks |-> L(<<1, 2>>), v |-> MkInt(12)] ELSE [ticks |-> L(<<1>>), v |-> Unspec]
    [] k = "cond1t"  -> IF T(a[1]) THEN [ticks |-> L(<<1>>), v |-> a[1]] ELSE [ticks |-> L(<<1>>), v |-> Unspec]
    [] k = "cond1a"  -> IF T(a[1]) THEN [ticks |-> L(<<1, 8, 9>>), v |-> MkList(<<a[1]>>)] ELSE [ticks |-> L(<<1>>), v |-> Unspec]
    [] k = "cond1e"  -> [ticks |-> L(<<1, 2>>), v |-> MkInt(12)]
    [] k = "and0"    -> [ticks |-> <<>>, v |-> True]
    [] k = "and1"    -> [ticks |-> L(<<1>>), v |-> a[1]]
    [] k = "or0"     -> [ticks |-> <<>>, v |-> False]
    [] k = "or1"     -> [ticks |-> L(<<1>>), v |-> a[1]]
    [] k = "case1l"  -> [ticks |-> L(<<2>>), v |-> MkInt(12)]
    [] k \in {"let0d", "letstar0d"} -> [ticks |-> L(<<1, 2>>), v |-> MkList(<<a[1], MkInt(12)>>)]
    [] k = "or2"     -> IF T(a[1]) THEN [ticks |-> L(<<1>>), v |-> a[1]] ELSE [ticks |-> L(<<1, 2>>), v |-> MkInt(12)]     \* the deciding VALUE, not #t
    [] k = "and2"    -> IF ~T(a[1]) THEN [ticks |-> L(<<1>>), v |-> a[1]] ELSE [ticks |-> L(<<1, 2>>), v |-> MkInt(12)]
    [] k = "when1"   -> IF T(a[1]) THEN [ticks |-> L(<<1, 2>>), v |-> MkInt(12)] ELSE [ticks |-> L(<<1>>), v |-> Unspec]
    [] k = "unless1" -> IF ~T(a[1]) THEN [ticks |-> L(<<1, 2>>), v |-> MkInt(12)] ELSE [ticks |-> L(<<1>>), v |-> Unspec]
    [] k = "begin1"  -> [ticks |-> L(<<1>>), v |-> MkInt(11)]
    [] k = "let0"    -> [ticks |-> L(<<1, 2>>), v |-> MkInt(12)]
    [] k = "letstar0" -> [ticks |-> L(<<1>>), v |-> MkInt(11)]
    [] k = "letstar1" -> [ticks |-> L(<<1, 2>>), v |-> MkList(<<MkInt(11), MkInt(12)>>)]
SingleLaw ==
  (Done /\ Family \in {"derived-quick", "derived-full"} /\ FamSeq[pid].tag[1] = "single") =>
     \E k \in KindSet \cup SmallKinds : \E a \in Assignments(k) :
        /\ FamSeq[pid].tag[2] = k
        /\ FamSeq[pid].forms[1] = InContext(FamSeq[pid].tag[3], Single(k, 0, a))
        /\ LET e == ExpectedSingle(k, a) IN
             /\ results[1].out = e.ticks
             /\ results[1].r.k = "value" /\ Match(e.v, results[1].r.v) /\ Match(results[1].r.v, e.v)

(* C01: the four spellings of one call agree (value or error kind, and the ticks of the operand) *)
SpellingLaw ==
  (Done /\ FamSeq[pid].tag[1] = "core") =>
     /\ \A i \in 1..7 : results[i].r.k = "none"
     /\ \A i \in 9..12 : results[i] = results[8]
     /\ results[13].r = [k |-> "value", v |-> MkList(<<MkSym("outer-helper"), MkSym("outer-ev"), MkSym("outer-p1"), MkSym("outer-rest"), MkSym("outer-all")>>)]
(* C08: the faulting form is stopped with an error of the corresponding kind in every calling
   context; the interpreter keeps exactly the effects completed before it and goes on *)
FaultLaw ==
  (Done /\ FamSeq[pid].tag[1] = "fault") =>
     LET n == Len(results)
         pre == FamSeq[pid].tag[4]
     IN /\ results[n - 4].r = [k |-> "error", kind |-> ExpectedKind(FamSeq[pid].tag[2])]
        /\ results[n - 3].r = [k |-> "value", v |-> MkInt(pre + 1)]      \* the effect before the fault, none after
        /\ results[n - 2].r = [k |-> "value", v |-> MkInt(7)]
        /\ results[n].r = [k |-> "value", v |-> MkInt(pre + 2)]
        /\ \A i \in 1..(n - 5) : results[i].r.k # "error"

(* C02: a loop written with tail calls computes the same as the bounded iteration: it returns N *)
TailResultLaw ==
  (Done /\ FamSeq[pid].tag[1] = "tail") =>
     results[Len(results)].r = [k |-> "value", v |-> MkInt(FamSeq[pid].tag[5])]

(* C11: laws of the list library, each stated on the result the machine computed for one call *)
ArgOf(f, i) == LET e == f.as[i] IN IF e.t = "lit" THEN e.v ELSE e.d
ListLaw ==
  (Done /\ FamSeq[pid].tag[1] = "list") =>
    LET f == Forms[1]
        r == results[1].r
        kind == FamSeq[pid].tag[2]
    IN CASE kind = "append2" /\ r.k = "value" ->      \* length adds up, elements in order, last argument shared as tail
              LET a == ArgOf(f, 1) b == ArgOf(f, 2) IN
                Elems(r.v) = Elems(a) \o Elems(b) /\ LastCdr(r.v) = LastCdr(b)
         [] kind = "append3" /\ r.k = "value" ->      \* associativity: (append a b c) lists a's, b's then c's elements
              Elems(r.v) = Elems(ArgOf(f, 1)) \o Elems(ArgOf(f, 2)) \o Elems(ArgOf(f, 3))
         [] kind = "index" ->                          \* list-ref = car of list-tail; a too short list is an error, never a value
              LET l == ArgOf(f, 1) k == f.as[2].v.v IN
                IF k < 0 \/ k > Len(Elems(l)) \/ (f.f.x = "list-ref" /\ k = Len(Elems(l))) THEN r.k = "error"
                ELSE r.k = "value" /\ (f.f.x = "list-ref" => r.v = Elems(l)[k + 1])
                                 /\ (f.f.x = "list-tail" => Elems(r.v) = SubSeq(Elems(l), k + 1, Len(Elems(l))))
         [] kind = "map" /\ r.k = "value" ->            \* the procedure is called once per element, in list order
              results[1].out = Elems(ArgOf(f, 2)) /\ (f.f.x = "map" => Len(Elems(r.v)) = Len(Elems(ArgOf(f, 2))))
         [] kind = "fold" /\ r.k = "value" ->           \* fold-left visits left to right, fold-right right to left
              LET es == Elems(ArgOf(f, 3)) IN
                results[1].out = (IF f.f.x = "fold-left" THEN es ELSE [i \in DOMAIN es |-> es[Len(es) + 1 - i]])
         [] kind = "mem" /\ r.k = "value" ->            \* the first sublist whose car is the object, or #f
              (r.v = False \/ (r.v.t = "pair" /\ Eqv(r.v.a, ArgOf(f, 1))))
         [] OTHER -> TRUE

(* C17: the observables of running a program file are functions of the per-form outcomes *)
CliStdout == LET RECURSIVE Cat(_) Cat(i) == IF i > Len(results) THEN <<>> ELSE results[i].out \o Cat(i + 1) IN Cat(1)
CliExitZero == \A i \in DOMAIN results : results[i].r.k # "error"
CliLaw ==
  (Done /\ FamSeq[pid].tag[1] = "cli") =>
     /\ (CliExitZero => Len(results) = Len(Forms))                           \* nothing failed: every form ran
     /\ (Len(results) < Len(Forms) => ~CliExitZero)                          \* stopped early only because of a failure
     /\ \A i \in 1..(Len(results) - 1) : results[i].r.k # "error"            \* only the last evaluated form can be the failing one
     /\ (~CliExitZero => results[Len(results)].r.k = "error")

Emit == Done => PrintT(<<"VEC", ToJson([forms |-> Forms, tag |-> FamSeq[pid].tag, results |-> results])>>)
=============================================================================
