CONSTANTS
  Mode = "single"
  MaxPat = 2
  MaxUse = 2
  Emitting = TRUE
INIT Init
NEXT Next
INVARIANT Laws
INVARIANT Emit
CHECK_DEADLOCK FALSE
