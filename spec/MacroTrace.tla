----------------------------- MODULE MacroTrace -----------------------------
(* Trace validation for C04.  Events {"lits":[name...],"rules":[{"pat":[datum...],"tmpl":datum}...],"args":[datum...],"obs":outcome}:
   a macro m with these rules (templates quoted) was defined through define-syntax and (m args...) evaluated. *)
EXTENDS Macro, Json, IOUtils, TLC
Rec == ndJsonDeserialize(IOEnv.TRACE)
\* the value of a quoted datum: vector literals are vectors
RECURSIVE AsValue(_)
AsValue(d) == IF d.t = "vlit" THEN [t |-> "vec", xs |-> [i \in DOMAIN d.xs |-> AsValue(d.xs[i])]]
              ELSE IF d.t = "pair" THEN Cons(AsValue(d.a), AsValue(d.d)) ELSE d
Verdict(e) ==
  LET r == Transform(e.rules, e.args, {e.lits[i] : i \in DOMAIN e.lits}) IN
  IF r.k = "nomatch" THEN e.obs.k = "error" /\ e.obs.kind = "Syntax"          \* a syntax error, never a value
  ELSE e.obs.k = "value" /\ Match(AsValue(r.d), e.obs.v)
VARIABLES l, bad
Init == l = 1 /\ bad = 0
Next == /\ l <= Len(Rec)
        /\ IF Verdict(Rec[l]) THEN bad' = bad
           ELSE PrintT(<<"MISMATCH", ToJson([event |-> l, expected |-> Transform(Rec[l].rules, Rec[l].args, {Rec[l].lits[i] : i \in DOMAIN Rec[l].lits}), observed |-> Rec[l].obs])>>) /\ bad' = bad + 1
        /\ l' = l + 1
Done == l = Len(Rec) + 1 => PrintT(<<"DONE", ToJson([events |-> Len(Rec), bad |-> bad])>>)
=============================================================================
