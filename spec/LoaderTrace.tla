----------------------------- MODULE LoaderTrace -----------------------------
(* Trace validation for C14.  Events recorded from the real interpreter:
     {"ev":"config","imports":[[..]..],"kind":[..]}     a fresh interpreter with this library graph
     {"ev":"attempt","lib":n,"out":"Ok|Cyclic|...","marks":[..]}   one top-level (import (ln)) and what
                                                          the loader state hook reported afterwards
   For each attempt the specification's own actions are taken (silently) until the attempt is
   finished, then outcome and marks are compared. *)
EXTENDS Loader, Json, IOUtils

Rec == ndJsonDeserialize(IOEnv.TRACE)

VARIABLES l, phase, bad
tvars == <<vars, l, phase, bad>>

TInit == /\ l = 1 /\ phase = "idle" /\ bad = 0
         /\ imports = [x \in Libs |-> <<>>] /\ kind = [x \in Libs |-> "ok"]
         /\ inProgress = {} /\ stack = <<>> /\ pending = NoLib /\ marked = FALSE
         /\ target = NoLib /\ history = <<>>

IsEvent(e) == l <= Len(Rec) /\ Rec[l].ev = e

Config ==
  /\ IsEvent("config") /\ phase = "idle"
  /\ imports' = [x \in Libs |-> Rec[l].imports[x]]
  /\ kind' = [x \in Libs |-> Rec[l].kind[x]]
  /\ inProgress' = {} /\ stack' = <<>> /\ pending' = NoLib /\ marked' = FALSE
  /\ target' = NoLib /\ history' = <<>>
  /\ l' = l + 1 /\ UNCHANGED <<phase, bad>>

Start ==
  /\ IsEvent("attempt") /\ phase = "idle"
  /\ Attempt(Rec[l].lib)
  /\ phase' = "run" /\ UNCHANGED <<l, bad>>

Silent ==
  /\ phase = "run" /\ ~Idle
  /\ (BeginImport \/ ResolveFactory \/ EvalDeclaration \/ FinishImport)
  /\ UNCHANGED <<l, phase, bad>>

Compare ==
  /\ IsEvent("attempt") /\ phase = "run" /\ Idle
  /\ LET e == Rec[l]
         h == history[Len(history)]
         ok == /\ e.out \in Candidates(e.lib)
               /\ {e.marks[i] : i \in DOMAIN e.marks} = h.marks
     IN IF ok THEN bad' = bad
        ELSE /\ PrintT(<<"MISMATCH", ToJson([event |-> l, lib |-> e.lib, observed |-> e.out,
                         observedMarks |-> e.marks, expected |-> h.out, specMarks |-> h.marks])>>)
             /\ bad' = bad + 1
  /\ l' = l + 1 /\ phase' = "idle"
  /\ UNCHANGED vars

TNext == Config \/ Start \/ Silent \/ Compare
TSpec == TInit /\ [][TNext]_tvars

TDone == (l = Len(Rec) + 1) => PrintT(<<"DONE", ToJson([events |-> Len(Rec), bad |-> bad])>>)
\* the specification's invariants are evaluated on every state of every validated execution
TInv == NoStaleMark /\ BoundedNesting /\ OutcomeIsFunctionOfGraph
=============================================================================
