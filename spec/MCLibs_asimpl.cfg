CONSTANTS
  GC = FALSE
  Broken = "none"
  MaxOps = 3
  Family = "main"
  Reinstantiate = TRUE
SPECIFICATION Spec
INVARIANT OneInstance
INVARIANT ExportedOnly
INVARIANT LibraryFramesAreRoots
INVARIANT SharedState
CHECK_DEADLOCK FALSE
