CONSTANTS
  Libs = {1, 2, 3}
  NoLib = 0
  MaxAttempts = 2
  AsImplemented = FALSE
  FaultKinds = {"fault", "missing"}
  MaxFaulty = 1
  Orders = "asc"
SPECIFICATION FairSpec
PROPERTY Terminates
CHECK_DEADLOCK FALSE
