CONSTANTS
  GC = FALSE
  Broken = "copy-on-bind"
  Counters = {"c1", "c2"}
  Shared = {"p1"}
  VecOrder <- VecOrder2
  ListVars = {"l1"}
  CapVars = {"k1"}
  Vals = {5}
  MaxLen = 3
  Emitting = FALSE
SPECIFICATION Spec
INVARIANT Refinement
INVARIANT LiteralsFrozen
INVARIANT CountersIndependent
CHECK_DEADLOCK FALSE
