------------------------------- MODULE CliTrace -------------------------------
(* Trace validation for C17.  Events:
   {"forms":[{k, shown, msg, located}...], "file":[cp...], "stdout":[cp...], "stderr":[[cp...]...], "exit":n, "kind":"program"|"nofile"}
   For kind "nofile" (missing or unreadable file) forms is empty and a diagnostic with a non-zero status is demanded. *)
EXTENDS Cli, Json, IOUtils, TLC
Rec == ndJsonDeserialize(IOEnv.TRACE)
Verdict(e) ==
  IF e.kind = "nofile"
  THEN e.exit # 0 /\ e.stdout = <<>> /\ Len(e.stderr) = 1 /\ Len(e.stderr[1]) > Len(e.file) /\ SubSeq(e.stderr[1], 1, Len(e.file)) = e.file
  ELSE CliVerdict(e.forms, e.file, e.stdout, e.stderr, e.exit)
VARIABLES l, bad
Init == l = 1 /\ bad = 0
Next == /\ l <= Len(Rec)
        /\ IF Verdict(Rec[l]) THEN bad' = bad
           ELSE PrintT(<<"MISMATCH", ToJson([event |-> l])>>) /\ bad' = bad + 1
        /\ l' = l + 1
Done == l = Len(Rec) + 1 => PrintT(<<"DONE", ToJson([events |-> Len(Rec), bad |-> bad])>>)
=============================================================================
