CONSTANTS
  GC = FALSE
  Broken = "none"
  Family = "tail-fin-1"
  MaxKont = 4
SPECIFICATION Spec
INVARIANT KontBounded
INVARIANT TailResultLaw
INVARIANT Emit
CHECK_DEADLOCK FALSE
