------------------------------ MODULE MCLoader ------------------------------
(* Bounded universe for C14: every import graph on Libs x node kinds x history of attempts. *)
EXTENDS Loader, Json, SequencesExt

CONSTANTS FaultKinds,   \* kinds a non-ok node may have
          MaxFaulty,    \* maximal number of non-ok nodes
          Orders        \* "asc": imports listed in ascending order; "both": also descending

Asc(S) == SetToSortSeq(S, <)
ImportLists == {Asc(S) : S \in SUBSET Libs}
               \cup (IF Orders = "both" THEN {Reverse(Asc(S)) : S \in SUBSET Libs} ELSE {})
KindAssignments == {k \in [Libs -> {"ok"} \cup FaultKinds] :
                      Cardinality({l \in Libs : k[l] # "ok"}) <= MaxFaulty}

Init == /\ kind \in KindAssignments
        /\ imports \in [Libs -> ImportLists]
        /\ \A l \in Libs : kind[l] \notin {"ok", "fault"} => imports[l] = <<>>   \* nothing to read
        /\ inProgress = {} /\ stack = <<>> /\ pending = NoLib /\ marked = FALSE
        /\ target = NoLib /\ history = <<>>

Spec == Init /\ [][Next]_vars
FairSpec == Spec /\ WF_vars(Next)

Emit == Done => PrintT(<<"VEC", ToJson([imports |-> imports, kind |-> kind, history |-> history,
                                       cands |-> [x \in Libs |-> SetToSeq(Candidates(x))]])>>)
=============================================================================
