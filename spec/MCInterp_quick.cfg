CONSTANTS
  GC = FALSE
  Broken = "none"
  MaxLen = 2
  Family = "syntax"
  SharedFiles = FALSE
  SharedSyntax = FALSE
SPECIFICATION Spec
INVARIANT Isolated
INVARIANT IsolatedPrefix
INVARIANT Emit
CHECK_DEADLOCK FALSE
