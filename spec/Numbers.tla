------------------------------- MODULE Numbers -------------------------------
(***************************************************************************)
(* The numeric tower on exact numbers (integers and ratios), as R7RS       *)
(* defines it: exact operations are exact.  Native TLA+ integers are used; *)
(* TLC reports (never hides) an overflow beyond 32 bits, so this module is *)
(* used for operands whose products stay below 2^31 (the "always exact"    *)
(* clause of C09 claims |components| < 2^15).  Inexact operands are        *)
(* handled by Binary32.tla / NumbersX.tla.                                 *)
(***************************************************************************)
EXTENDS Data

NumAdd(a, b) == MkRat(NumOf(a) * DenOf(b) + NumOf(b) * DenOf(a), DenOf(a) * DenOf(b))
NumSub(a, b) == MkRat(NumOf(a) * DenOf(b) - NumOf(b) * DenOf(a), DenOf(a) * DenOf(b))
NumMul(a, b) == MkRat(NumOf(a) * NumOf(b), DenOf(a) * DenOf(b))
NumIsZero(a) == NumOf(a) = 0
NumDiv(a, b) == MkRat(NumOf(a) * DenOf(b), DenOf(a) * NumOf(b))     \* b # 0
NumNeg(a) == MkRat(-NumOf(a), DenOf(a))
NumAbs(a) == MkRat(Abs(NumOf(a)), DenOf(a))
\* sign of a - b for normalised operands (denominators positive)
NumLess(a, b) == NumOf(a) * DenOf(b) < NumOf(b) * DenOf(a)
NumEq(a, b) == NumOf(a) * DenOf(b) = NumOf(b) * DenOf(a)
\* floor of a rational: greatest integer not above n/d  (d > 0; TLA+ \div floors)
NumFloor(a) == MkInt(NumOf(a) \div DenOf(a))
NumCeiling(a) == MkInt(-((-NumOf(a)) \div DenOf(a)))
NumFloorQuo(a, b) == NumFloor(NumDiv(a, b))
NumFloorRem(a, b) == NumSub(a, NumMul(NumFloorQuo(a, b), b))
NumMax(a, b) == IF NumLess(a, b) THEN b ELSE a
NumMin(a, b) == IF NumLess(b, a) THEN b ELSE a
\* normal form of an exact number however the implementation holds it
Norm(a) == MkRat(NumOf(a), DenOf(a))
=============================================================================
