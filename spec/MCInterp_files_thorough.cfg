CONSTANTS
  GC = FALSE
  Broken = "none"
  MaxLen = 3
  Family = "files"
  SharedFiles = FALSE
  SharedSyntax = FALSE
SPECIFICATION Spec
INVARIANT Isolated
INVARIANT IsolatedPrefix
INVARIANT Emit
CHECK_DEADLOCK FALSE
