--------------------------------- MODULE Repl ---------------------------------
(***************************************************************************)
(* The read-eval-print loop as a machine over input lines (C18).           *)
(*   pending  the text entered so far and not yet submitted                *)
(*   subs     the texts submitted for evaluation, in order                 *)
(* A line is appended to pending; the pending text is submitted as soon as *)
(* the lines entered so far close every list they opened, and not before.  *)
(* "Closed" is defined through the specification's reader: the text lexes  *)
(* and its nesting depth is <= 0.  A text that ends inside a string or     *)
(* |identifier| opened inside a list is not closed (the list is open).     *)
(* Where the text does not lex otherwise at the point of the line break    *)
(* the property does not say what happens: Constrained(text) is FALSE.     *)
(***************************************************************************)
EXTENDS Reader

\* the text ends inside a string or |identifier| that was opened inside a list: the list is certainly not closed
OpenInsideList(L) == L.k = "error" /\ "open" \in DOMAIN L /\ DepthOf(L.toks, 1, 0) > 0
Constrained(text) == LET L == Lex(text) IN L.k = "tokens" \/ OpenInsideList(L)
Closed(text) == LET L == Lex(text) IN L.k = "tokens" /\ DepthOf(L.toks, 1, 0) <= 0

ReplInit == [pending |-> <<>>, subs |-> <<>>, ok |-> TRUE]
\* one input line (without its line terminator)
ReplLine(st, line) ==
  IF line = <<>> THEN st                                        \* empty lines are ignored
  ELSE LET p == st.pending \o line IN
       IF ~Constrained(p) THEN [st EXCEPT !.ok = FALSE, !.pending = p \o <<LF>>]      \* outside the claim from here on
       ELSE IF Closed(p) THEN [st EXCEPT !.subs = Append(@, p), !.pending = <<>>]
       ELSE [st EXCEPT !.pending = p \o <<LF>>]
RECURSIVE ReplRun(_, _, _)
ReplRun(st, lines, i) == IF i > Len(lines) THEN st ELSE ReplRun(ReplLine(st, lines[i]), lines, i + 1)
=============================================================================
