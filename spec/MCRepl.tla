------------------------------- MODULE MCRepl -------------------------------
(* C18 on the specification: a form is submitted exactly when its last line is entered, however it is split
   across lines - for every form of a small set (parentheses inside strings, characters, |identifiers| and
   comments included) and every way of breaking it into lines between tokens. *)
EXTENDS Repl, TLC

\* forms as token spellings (a comment token is always followed by a line break)
Forms == <<
  <<<<40>>, <<97>>, <<40>>, <<98>>, <<41>>, <<99>>, <<41>>>>,
  <<<<40>>, <<102>>, <<34, 40, 34>>, <<35, 92, 40>>, <<120>>, <<41>>>>,
  <<<<40>>, <<100, 101, 102, 105, 110, 101>>, <<40>>, <<102>>, <<120>>, <<41>>, <<59, 32, 40>>, <<40>>, <<43>>, <<120>>, <<49>>, <<41>>, <<41>>>>,
  <<<<39>>, <<40>>, <<49>>, <<46>>, <<40>>, <<50>>, <<41>>, <<41>>>>,
  <<<<35, 40>>, <<49>>, <<40>>, <<50>>, <<41>>, <<34, 41, 34>>, <<41>>>>,
  <<<<40>>, <<103>>, <<124, 40, 124>>, <<121>>, <<41>>>> >>
IsComment(tok) == tok[1] = SEMI
VARIABLES f, breaks, phase
\* nesting depth after token i of form x (by the token spellings)
RECURSIVE DepthAfter(_, _)
DepthAfter(x, i) == IF i = 0 THEN 0
                    ELSE DepthAfter(x, i - 1) + (IF Forms[x][i] \in {<<LPAREN>>, <<HASH, LPAREN>>} THEN 1
                                                 ELSE IF Forms[x][i] = <<RPAREN>> THEN -1 ELSE 0)
\* a line break INSIDE a list (a break at depth 0 - e.g. right after a quote mark - ends a submission by the
\* very statement of the property, so it is not "splitting a form across lines")
Init == /\ f \in DOMAIN Forms /\ phase = 0
        /\ breaks \in SUBSET {i \in 1..(Len(Forms[f]) - 1) : DepthAfter(f, i) > 0}
Next == phase = 0 /\ phase' = 1 /\ UNCHANGED <<f, breaks>>
\* the lines: tokens joined by single spaces, a new line after token i when i is in breaks or token i is a comment
RECURSIVE LinesFrom(_, _, _)
LinesFrom(i, cur, acc) ==
  IF i > Len(Forms[f]) THEN (IF cur = <<>> THEN acc ELSE Append(acc, cur))
  ELSE LET c2 == (IF cur = <<>> THEN <<>> ELSE cur \o <<SP>>) \o Forms[f][i] IN
       IF i < Len(Forms[f]) /\ (i \in breaks \/ IsComment(Forms[f][i])) THEN LinesFrom(i + 1, <<>>, Append(acc, c2))
       ELSE LinesFrom(i + 1, c2, acc)
Lines == LinesFrom(1, <<>>, <<>>)
RECURSIVE OneLine(_, _)
OneLine(i, cur) == IF i > Len(Forms[f]) THEN cur
                   ELSE IF IsComment(Forms[f][i]) THEN OneLine(i + 1, cur)        \* (the comment is dropped on the single line)
                   ELSE OneLine(i + 1, (IF cur = <<>> THEN <<>> ELSE cur \o <<SP>>) \o Forms[f][i])
NoBreakLines == <<OneLine(1, <<>>)>>
SplitLaw == phase = 1 =>
  LET final == ReplRun(ReplInit, Lines, 1)
      before == ReplRun(ReplInit, SubSeq(Lines, 1, Len(Lines) - 1), 1)
      whole == ReplRun(ReplInit, NoBreakLines, 1)
  IN /\ final.ok /\ Len(final.subs) = 1 /\ final.pending = <<>>           \* submitted with the last line ...
     /\ before.subs = <<>>                                                 \* ... and not before
     /\ Lex(final.subs[1]) = Lex(whole.subs[1])                            \* the same tokens as when typed on one line
=============================================================================
