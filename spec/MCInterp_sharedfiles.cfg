CONSTANTS
  GC = FALSE
  Broken = "none"
  MaxLen = 2
  Family = "files"
  SharedFiles = TRUE
  SharedSyntax = FALSE
SPECIFICATION Spec
INVARIANT Isolated
INVARIANT IsolatedPrefix
CHECK_DEADLOCK FALSE
