------------------------------- MODULE Loader -------------------------------
(***************************************************************************)
(* The library loader of one interpreter, as a state machine.             *)
(*                                                                         *)
(* Configuration (constant within a behaviour):                            *)
(*   imports[l]  the libraries l's definition imports, in source order     *)
(*   kind[l]     "ok" | "fault" (body raises an error after its imports)   *)
(*               | "missing" | "wrongname" | "malformed" | "notutf8"       *)
(* Interpreter state (mirrors Interpreter{imported_library, ..}):          *)
(*   inProgress  the set of libraries marked as being imported             *)
(*   stack       DFS frames <<[lib, next]>>, innermost last                *)
(*   pending     the library whose import is about to begin, or NoLib      *)
(*   marked      TRUE between BeginImport and ResolveFactory               *)
(*   history     the attempts made so far with their outcomes              *)
(*                                                                         *)
(* One action per critical section of eval_import_set / get_library /      *)
(* eval_library_definition.  The failure path of the implementation as it  *)
(* was found (marks are kept when an import fails) is the named            *)
(* alternative FailImportKeepsMark, enabled only when AsImplemented.       *)
(***************************************************************************)
EXTENDS Naturals, Sequences, FiniteSets, TLC

CONSTANTS Libs,          \* set of library ids (small naturals)
          NoLib,         \* a value outside Libs
          MaxAttempts,   \* length of the history of top-level import attempts
          AsImplemented  \* BOOLEAN: use the defective failure path

VARIABLES imports, kind, inProgress, stack, pending, marked, target, history
cfgvars == <<imports, kind>>
vars == <<imports, kind, inProgress, stack, pending, marked, target, history>>

Rng(s) == {s[i] : i \in DOMAIN s}

ResolveError(k) == CASE k = "missing"   -> "NotFound"
                     [] k = "wrongname" -> "NotFound"
                     [] k = "malformed" -> "Syntax"
                     [] k = "notutf8"   -> "Io"
                     [] OTHER           -> "Ok"
Loadable(l) == kind[l] \in {"ok", "fault"}

---------------------------------------------------------------------------
(* Declarative meaning: the outcome of importing l is a function of the graph alone. *)

RECURSIVE Visit(_, _), VisitSeq(_, _, _)
Visit(l, path) ==
  IF l \in path THEN "Cyclic"
  ELSE IF ~Loadable(l) THEN ResolveError(kind[l])
  ELSE LET r == VisitSeq(imports[l], 1, path \cup {l})
       IN IF r # "Ok" THEN r ELSE IF kind[l] = "fault" THEN "Fault" ELSE "Ok"
VisitSeq(s, i, path) ==
  IF i > Len(s) THEN "Ok"
  ELSE LET r == Visit(s[i], path) IN IF r # "Ok" THEN r ELSE VisitSeq(s, i + 1, path)

Outcome(l) == Visit(l, {})

\* what the property statement alone fixes (it does not say which error wins when several apply)
Succ(n) == IF Loadable(n) THEN Rng(imports[n]) ELSE {}
RECURSIVE ReachFrom(_, _)
ReachFrom(S, seen) == LET new == (UNION {Succ(n) : n \in S}) \ seen
                      IN IF new = {} THEN seen ELSE ReachFrom(new, seen \cup new)
Reach(l) == ReachFrom({l}, {l})                 \* l and everything reachable from it
ReachPlus(n) == ReachFrom({n}, {})              \* reachable by a path of length >= 1
CycleReachable(l) == \E n \in Reach(l) : n \in ReachPlus(n)
NodeError(n) == IF kind[n] = "fault" THEN "Fault" ELSE ResolveError(kind[n])
Candidates(l) ==
  LET c == (IF CycleReachable(l) THEN {"Cyclic"} ELSE {})
           \cup {NodeError(n) : n \in {m \in Reach(l) : kind[m] # "ok"}}
  IN IF c = {} THEN {"Ok"} ELSE c

---------------------------------------------------------------------------
(* Operational model *)

Idle == stack = <<>> /\ pending = NoLib

Attempt(l) ==
  /\ Idle /\ Len(history) < MaxAttempts
  /\ target' = l /\ pending' = l /\ marked' = FALSE
  /\ UNCHANGED <<cfgvars, inProgress, stack, history>>

StackLibs == {stack[i].lib : i \in DOMAIN stack}

Finish(out, marks) ==
  /\ history' = Append(history, [lib |-> target, out |-> out, marks |-> marks])
  /\ inProgress' = marks
  /\ stack' = <<>> /\ pending' = NoLib /\ marked' = FALSE
  /\ UNCHANGED <<cfgvars, target>>

\* the failure path: the error unwinds through every enclosing import
FailImport(e) ==
  IF AsImplemented
  THEN Finish(e, inProgress)                                   \* FailImportKeepsMark
  ELSE Finish(e, inProgress \ (StackLibs \cup {pending}))      \* every mark set by this attempt is removed

\* eval_import_set, Direct: imported_library.insert(name) or the cyclic error
BeginImport ==
  /\ pending # NoLib /\ ~marked
  /\ IF pending \in inProgress
     THEN FailImport("Cyclic")
     ELSE /\ inProgress' = inProgress \cup {pending}
          /\ marked' = TRUE
          /\ UNCHANGED <<cfgvars, stack, pending, target, history>>

\* get_library: find the factory (registered / file / missing / unreadable / wrong name / malformed)
ResolveFactory ==
  /\ pending # NoLib /\ marked
  /\ IF ~Loadable(pending)
     THEN FailImport(ResolveError(kind[pending]))
     ELSE /\ stack' = Append(stack, [lib |-> pending, next |-> 1])
          /\ pending' = NoLib /\ marked' = FALSE
          /\ UNCHANGED <<cfgvars, inProgress, target, history>>

\* eval_library_definition: the next import declaration of the library on top of the stack
EvalDeclaration ==
  /\ pending = NoLib /\ stack # <<>>
  /\ LET f == stack[Len(stack)] IN
       /\ f.next <= Len(imports[f.lib])
       /\ pending' = imports[f.lib][f.next]
       /\ marked' = FALSE
       /\ stack' = [stack EXCEPT ![Len(stack)].next = f.next + 1]
  /\ UNCHANGED <<cfgvars, inProgress, target, history>>

\* all imports done: evaluate the body; then imported_library.remove(name)
FinishImport ==
  /\ pending = NoLib /\ stack # <<>>
  /\ LET f == stack[Len(stack)] IN
       /\ f.next > Len(imports[f.lib])
       /\ IF kind[f.lib] = "fault"
          THEN FailImport("Fault")
          ELSE IF Len(stack) = 1
               THEN Finish("Ok", inProgress \ {f.lib})
               ELSE /\ stack' = SubSeq(stack, 1, Len(stack) - 1)
                    /\ inProgress' = inProgress \ {f.lib}
                    /\ UNCHANGED <<cfgvars, pending, marked, target, history>>

Next == (\E l \in Libs : Attempt(l)) \/ BeginImport \/ ResolveFactory \/ EvalDeclaration \/ FinishImport

---------------------------------------------------------------------------
(* Properties (C14) *)

\* I1: between attempts nothing is marked as in progress
NoStaleMark == Idle => inProgress = {}
\* I2: each attempt's outcome is the declarative one - hence independent of the earlier attempts
OutcomeIsFunctionOfGraph ==
  \A i \in DOMAIN history : history[i].out = Outcome(history[i].lib)
\* the declarative DFS outcome is one the property statement allows
OutcomeAllowed == \A l \in Libs : Outcome(l) \in Candidates(l)
\* I3 (safety half of termination): the DFS never nests deeper than the number of libraries,
\* and a library is never on the stack twice
BoundedNesting == /\ Len(stack) <= Cardinality(Libs)
                  /\ \A i, j \in DOMAIN stack : i # j => stack[i].lib # stack[j].lib
TypeOK == /\ inProgress \subseteq Libs
          /\ pending \in Libs \cup {NoLib}
          /\ Len(history) <= MaxAttempts
Done == Len(history) = MaxAttempts /\ Idle
Terminates == <>Done
=============================================================================
