------------------------------ MODULE Binary32 ------------------------------
(***************************************************************************)
(* IEEE-754 binary32 arithmetic, exactly: a finite value is decoded to a   *)
(* dyadic rational over BigInt, the operation is performed on rationals,   *)
(* and the result is rounded once (round to nearest, ties to even) with    *)
(* overflow to infinity, gradual underflow and signed zeros.               *)
(*   real value: [t |-> "real", s |-> 0|1, e |-> 0..255, m |-> 0..2^23-1]  *)
(*   positive rational: <<N, D>> magnitudes, D # <<>>                      *)
(***************************************************************************)
EXTENDS BigInt

Two23 == 8388608
Two24 == 16777216
MkReal(s, e, m) == [t |-> "real", s |-> s, e |-> e, m |-> m]
PosZero == MkReal(0, 0, 0)
NegZero == MkReal(1, 0, 0)
Inf(s) == MkReal(s, 255, 0)
NaN == MkReal(0, 255, 4194304)
IsNaN(x) == x.e = 255 /\ x.m # 0
IsInf(x) == x.e = 255 /\ x.m = 0
IsFinite(x) == x.e # 255
IsZeroR(x) == x.e = 0 /\ x.m = 0

\* finite x = (-1)^s * Mant(x) * 2^Exp(x)
Mant(x) == IF x.e = 0 THEN x.m ELSE Two23 + x.m
Exp(x) == IF x.e = 0 THEN -149 ELSE x.e - 150

\* x as a positive rational <<N, D>> (for x # 0)
RatOfReal(x) == IF Exp(x) >= 0 THEN <<MagShl(MagOfNat(Mant(x)), Exp(x)), <<1>>>>
                ELSE <<MagOfNat(Mant(x)), MagShl(<<1>>, -Exp(x))>>

\* ---- rounding (round to nearest, ties to even; overflow to infinity; gradual underflow)
\* q * 2^E with q < 2^24 + 1 and E >= -149 (q < 2^23 only when E = -149)
RECURSIVE Encode(_, _, _)
Encode(s, q, E) ==
  IF MagBitLen(q) > 24 THEN Encode(s, MagShr(q, 1), E + 1)          \* rounding carried into the next binade
  ELSE LET qn == MagToNat(q, 1) IN
       IF qn >= Two23 THEN (IF E + 150 >= 255 THEN Inf(s) ELSE MkReal(s, E + 150, qn - Two23))
       ELSE MkReal(s, 0, qn)
\* the value (M + f) * 2^E where 0 <= f < 1 and f > 0 iff sticky; when sticky, M must have at least 26 bits
RoundDyadic(s, M, E, sticky) ==
  IF M = <<>> THEN MkReal(s, 0, 0)
  ELSE LET bl == MagBitLen(M)
           sh0 == bl - 24
           sh == IF E + sh0 < -149 THEN -149 - E ELSE sh0
       IN IF sh <= 0 THEN Encode(s, MagShl(M, -sh), E + sh)           \* representable exactly
          ELSE LET q == MagShr(M, sh)
                   half == MagBit(M, sh - 1) = 1
                   low == sticky \/ MagLowBitsNonZero(M, sh - 1)
                   up == half /\ (low \/ MagIsOdd(q))
               IN Encode(s, IF up THEN MagAdd(q, <<1>>) ELSE q, E + sh)
\* same, rounding toward zero / away from zero (the two neighbours, for faithful-rounding checks)
RoundDyadicDir(s, M, E, sticky, away) ==
  IF M = <<>> THEN MkReal(s, 0, 0)
  ELSE LET bl == MagBitLen(M)
           sh0 == bl - 24
           sh == IF E + sh0 < -149 THEN -149 - E ELSE sh0
       IN IF sh <= 0 THEN Encode(s, MagShl(M, -sh), E + sh)
          ELSE LET q == MagShr(M, sh)
                   inexact == sticky \/ MagLowBitsNonZero(M, sh)
               IN Encode(s, IF away /\ inexact THEN MagAdd(q, <<1>>) ELSE q, E + sh)

\* the positive rational N/D as <<Q, E, sticky>> with N/D = (Q + f) * 2^E, Q of at least 26 bits
Quotient(N, D) ==
  LET k == 27 + MagBitLen(D) - MagBitLen(N)
      num == IF k > 0 THEN MagShl(N, k) ELSE N
      den == IF k < 0 THEN MagShl(D, -k) ELSE D
      qr == MagDivMod(num, den)
  IN <<qr[1], -k, qr[2] # <<>>>>
RoundNE(s, N, D) == IF N = <<>> THEN MkReal(s, 0, 0)
                    ELSE IF D = <<1>> THEN RoundDyadic(s, N, 0, FALSE)
                    ELSE LET q == Quotient(N, D) IN RoundDyadic(s, q[1], q[2], q[3])
RoundToward(s, N, D, away) == IF N = <<>> THEN MkReal(s, 0, 0)
                              ELSE LET q == Quotient(N, D) IN RoundDyadicDir(s, q[1], q[2], q[3], away)
Faithful(x, s, N, D) == x = RoundToward(s, N, D, FALSE) \/ x = RoundToward(s, N, D, TRUE)

\* ---- dyadic numbers [neg, m (magnitude), e]: value = (-1)^neg * m * 2^e
Dy(x) == [neg |-> x.s = 1, m |-> MagOfNat(Mant(x)), e |-> Exp(x)]
DyAdd(a, b) ==
  LET e == IF a.e < b.e THEN a.e ELSE b.e
      r == BigAdd(Mk(a.neg, MagShl(a.m, a.e - e)), Mk(b.neg, MagShl(b.m, b.e - e)))
  IN [neg |-> r.neg, m |-> r.mag, e |-> e]
DyMul(a, b) == [neg |-> (a.neg # b.neg), m |-> MagMul(a.m, b.m), e |-> a.e + b.e]
RoundDy(d, zeroSign) == IF d.m = <<>> THEN MkReal(zeroSign, 0, 0) ELSE RoundDyadic(IF d.neg THEN 1 ELSE 0, d.m, d.e, FALSE)

\* signed rationals as [neg, n (magnitude), d (magnitude)]
SRat(neg, n, d) == [neg |-> (neg /\ n # <<>>), n |-> n, d |-> d]
SRatOfReal(x) == LET r == RatOfReal(x) IN SRat(x.s = 1, r[1], r[2])
SRatAdd(a, b) ==
  LET x == BigAdd(Mk(a.neg, MagMul(a.n, b.d)), Mk(b.neg, MagMul(b.n, a.d)))
  IN SRat(x.neg, x.mag, MagMul(a.d, b.d))
SRatNeg(a) == SRat(~a.neg, a.n, a.d)
SRatMul(a, b) == SRat(a.neg # b.neg, MagMul(a.n, b.n), MagMul(a.d, b.d))
SRatDiv(a, b) == SRat(a.neg # b.neg, MagMul(a.n, b.d), MagMul(a.d, b.n))     \* b # 0
RoundSRat(r, zeroSign) == IF r.n = <<>> THEN MkReal(zeroSign, 0, 0) ELSE RoundNE(IF r.neg THEN 1 ELSE 0, r.n, r.d)

\* ---- IEEE operations on binary32 values (finite operands; non-finite operands yield NaN/Inf by the usual rules)
RNeg(x) == MkReal(1 - x.s, x.e, x.m)
RAbs(x) == MkReal(0, x.e, x.m)
RAdd(x, y) ==
  IF IsNaN(x) \/ IsNaN(y) THEN NaN
  ELSE IF IsInf(x) /\ IsInf(y) THEN (IF x.s = y.s THEN x ELSE NaN)
  ELSE IF IsInf(x) THEN x ELSE IF IsInf(y) THEN y
  ELSE IF IsZeroR(x) /\ IsZeroR(y) THEN (IF x.s = 1 /\ y.s = 1 THEN NegZero ELSE PosZero)
  ELSE IF IsZeroR(x) THEN y ELSE IF IsZeroR(y) THEN x
  ELSE RoundDy(DyAdd(Dy(x), Dy(y)), 0)          \* an exact zero sum is +0 under round-to-nearest
RSub(x, y) == RAdd(x, RNeg(y))
RMul(x, y) ==
  LET s == (x.s + y.s) % 2 IN
  IF IsNaN(x) \/ IsNaN(y) THEN NaN
  ELSE IF (IsInf(x) /\ IsZeroR(y)) \/ (IsZeroR(x) /\ IsInf(y)) THEN NaN
  ELSE IF IsInf(x) \/ IsInf(y) THEN Inf(s)
  ELSE IF IsZeroR(x) \/ IsZeroR(y) THEN MkReal(s, 0, 0)
  ELSE RoundDy(DyMul(Dy(x), Dy(y)), s)
RDiv(x, y) ==
  LET s == (x.s + y.s) % 2 IN
  IF IsNaN(x) \/ IsNaN(y) THEN NaN
  ELSE IF IsInf(x) /\ IsInf(y) THEN NaN
  ELSE IF IsInf(x) THEN Inf(s)
  ELSE IF IsInf(y) THEN MkReal(s, 0, 0)
  ELSE IF IsZeroR(y) THEN (IF IsZeroR(x) THEN NaN ELSE Inf(s))
  ELSE IF IsZeroR(x) THEN MkReal(s, 0, 0)
  ELSE LET q == Quotient(MagOfNat(Mant(x)), MagOfNat(Mant(y)))           \* mantissa quotient, at least 26 bits
       IN RoundDyadic(s, q[1], q[2] + Exp(x) - Exp(y), q[3])
\* ordering of non-NaN values: -1, 0, 1  (+0 = -0)
RCmp(x, y) ==
  IF IsZeroR(x) /\ IsZeroR(y) THEN 0
  ELSE IF IsInf(x) \/ IsInf(y)
       THEN (IF x = y THEN 0 ELSE IF (IsInf(x) /\ x.s = 1) \/ (IsInf(y) /\ y.s = 0) THEN -1 ELSE 1)
  ELSE LET d == DyAdd(Dy(x), Dy(RNeg(y)))
       IN IF d.m = <<>> THEN 0 ELSE IF d.neg THEN -1 ELSE 1
\* floor / ceiling of a finite value, as a binary32 value
RFloorCeil(x, ceil) ==
  IF ~IsFinite(x) \/ IsZeroR(x) THEN x
  ELSE LET ip == IF Exp(x) >= 0 THEN MagShl(MagOfNat(Mant(x)), Exp(x)) ELSE MagShr(MagOfNat(Mant(x)), -Exp(x))
           exact == Exp(x) >= 0 \/ ~MagLowBitsNonZero(MagOfNat(Mant(x)), -Exp(x))
           qr == <<ip>>
           neg == x.s = 1
           \* floor of -q.f is -(q+1); ceiling of +q.f is q+1
           bump == ~exact /\ (neg # ceil)
           q == IF bump THEN MagAdd(qr[1], <<1>>) ELSE qr[1]
       IN IF q = <<>> THEN MkReal(x.s, 0, 0) ELSE RoundNE(x.s, q, <<1>>)
RFloor(x) == RFloorCeil(x, FALSE)
RCeiling(x) == RFloorCeil(x, TRUE)

\* exact integer / ratio to binary32 (correctly rounded)
RealOfBig(b) == IF b.mag = <<>> THEN PosZero ELSE RoundNE(IF b.neg THEN 1 ELSE 0, b.mag, <<1>>)
RealOfRatio(n, d) ==       \* n, d big integers, d # 0
  IF n.mag = <<>> THEN PosZero ELSE RoundNE(IF n.neg # d.neg THEN 1 ELSE 0, n.mag, d.mag)
\* the implementation's order of conversion for a ratio: convert both components, then divide
RealOfRatioTwoStep(n, d) == RDiv(RealOfBig(n), RealOfBig(d))

\* decimal literal  sign * digits * 10^exp10  (digits a magnitude) as a rational <<N, D>>
RECURSIVE MagPow10(_)
MagPow10(k) == IF k = 0 THEN <<1>> ELSE MagMulSmall(MagPow10(k - 1), 10)
DecimalRat(digits, exp10) == IF exp10 >= 0 THEN <<MagMul(digits, MagPow10(exp10)), <<1>>>>
                             ELSE <<digits, MagPow10(-exp10)>>
=============================================================================
