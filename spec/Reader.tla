------------------------------- MODULE Reader -------------------------------
(***************************************************************************)
(* From tokens to data (R7RS 7.1.2): parentheses, dotted tails, vector     *)
(* syntax and the quote abbreviation build the nested structure they       *)
(* denote; number tokens get their values here.                            *)
(* Data:  [t |-> "int", v]  [t |-> "rat", n, d]  [t |-> "dec", neg, digits, exp10] (a decimal, exact description) *)
(*        [t |-> "bool", b] [t |-> "char", c] [t |-> "str", cs] [t |-> "sym", cs] *)
(*        [t |-> "nil"] [t |-> "pair", a, d] [t |-> "vec", xs]             *)
(* ReadAll(toks) = [k |-> "data", ds |-> <<datum...>>] | [k |-> "error"]   *)
(***************************************************************************)
EXTENDS Lexer, Binary32

\* ---- numbers from digit sequences (TLC integers are 32-bit: range-check on the digits first)
RECURSIVE StripZeros(_)
StripZeros(s) == IF Len(s) > 1 /\ s[1] = 48 THEN StripZeros(Tail(s)) ELSE s
RECURSIVE DigitsLE(_, _)          \* same length, lexicographic
DigitsLE(a, b) == IF a = <<>> THEN TRUE ELSE IF a[1] < b[1] THEN TRUE ELSE IF a[1] > b[1] THEN FALSE ELSE DigitsLE(Tail(a), Tail(b))
MaxPos == <<50, 49, 52, 55, 52, 56, 51, 54, 52, 55>>      \* 2147483647
MaxNeg == <<50, 49, 52, 55, 52, 56, 51, 54, 52, 56>>      \* 2147483648
FitsI32Digits(s, neg) == LET z == StripZeros(s) IN
  Len(z) < 10 \/ (Len(z) = 10 /\ DigitsLE(z, IF neg THEN MaxNeg ELSE MaxPos))
RECURSIVE NatOfDigits(_, _)
NatOfDigits(s, acc) == IF s = <<>> THEN acc ELSE NatOfDigits(Tail(s), acc * 10 + (s[1] - 48))
\* value of a fitting signed digit string; -2147483648 is built without overflowing
IntOfDigits(s, neg) == LET z == StripZeros(s) IN
  IF ~neg THEN NatOfDigits(z, 0)
  ELSE IF z = MaxNeg THEN -2147483647 - 1 ELSE -NatOfDigits(z, 0)
RECURSIVE MagOfDigits(_, _)
MagOfDigits(s, acc) == IF s = <<>> THEN acc ELSE MagOfDigits(Tail(s), MagAdd(MagMulSmall(acc, 10), MagOfNat(s[1] - 48)))

\* decimal token text -> [neg, digits (magnitude), exp10]
DecimalOfText(cs) ==
  LET u == Unsigned(cs)
      me == SplitExp(u)
      m == me[1]
      e == me[2]
      d == IndexOf(m, DOT)
      ip == IF d = 0 THEN m ELSE SubSeq(m, 1, d - 1)
      fp == IF d = 0 THEN <<>> ELSE Rest(m, d + 1)
      ex == IF e = <<>> THEN 0
            ELSE LET ed == Unsigned(Rest(e, 2)) v == NatOfDigits(SubSeq(StripZeros(ed), 1, IF Len(StripZeros(ed)) > 4 THEN 4 ELSE Len(StripZeros(ed))), 0)
                 IN IF IsNeg(Rest(e, 2)) THEN -v ELSE v
  IN [t |-> "dec", neg |-> IsNeg(cs), digits |-> MagOfDigits(ip \o fp, <<>>), exp10 |-> ex - Len(fp),
      hugeExp |-> (e # <<>> /\ Len(StripZeros(Unsigned(Rest(e, 2)))) > 4)]

\* datum of an atomic token: [k |-> "ok", d] | [k |-> "error"]
Atom(tok) ==
  CASE tok.t = "int" -> IF FitsI32Digits(tok.digits, tok.neg)
                        THEN [k |-> "ok", d |-> [t |-> "int", v |-> IntOfDigits(tok.digits, tok.neg)]]
                        ELSE [k |-> "error"]             \* an error is the only acceptable outcome - never a different number
    [] tok.t = "rat" -> IF ~FitsI32Digits(tok.num, tok.neg) \/ ~FitsI32Digits(tok.den, FALSE) \/ StripZeros(tok.den) = <<48>>
                        THEN [k |-> "error"]
                        ELSE [k |-> "ok", d |-> [t |-> "rat", n |-> IntOfDigits(tok.num, tok.neg), d |-> IntOfDigits(tok.den, FALSE)]]
    [] tok.t = "real" -> [k |-> "ok", d |-> DecimalOfText(tok.cs)]
    [] tok.t = "ident" -> [k |-> "ok", d |-> [t |-> "sym", cs |-> tok.cs]]
    [] tok.t \in {"bool", "char", "str"} -> [k |-> "ok", d |-> tok]

Nil0 == [t |-> "nil"]
Pair(a, d) == [t |-> "pair", a |-> a, d |-> d]
RECURSIVE ListOf(_, _)
ListOf(s, tl) == IF s = <<>> THEN tl ELSE Pair(s[1], ListOf(Tail(s), tl))
QuoteSym == [t |-> "sym", cs |-> <<113, 117, 111, 116, 101>>]

\* ParseDatum(toks, i): [k |-> "ok", d, next] | [k |-> "error"]; ParseSeq collects data up to the closing token
RECURSIVE ParseDatum(_, _), ParseList(_, _, _), ParseVec(_, _, _)
ParseDatum(toks, i) ==
  IF i > Len(toks) THEN [k |-> "error"]
  ELSE LET tok == toks[i] IN
  CASE tok.t = "lp" -> ParseList(toks, i + 1, <<>>)
    [] tok.t = "vecopen" -> ParseVec(toks, i + 1, <<>>)
    [] tok.t = "quote" -> LET r == ParseDatum(toks, i + 1) IN
                          IF r.k # "ok" THEN r ELSE [k |-> "ok", d |-> ListOf(<<QuoteSym, r.d>>, Nil0), next |-> r.next]
    [] tok.t \in {"rp", "dot"} -> [k |-> "error"]
    [] OTHER -> LET a == Atom(tok) IN IF a.k = "ok" THEN [k |-> "ok", d |-> a.d, next |-> i + 1] ELSE [k |-> "error"]
ParseList(toks, i, acc) ==
  IF i > Len(toks) THEN [k |-> "error"]                                    \* unbalanced
  ELSE IF toks[i].t = "rp" THEN [k |-> "ok", d |-> ListOf(acc, Nil0), next |-> i + 1]
  ELSE IF toks[i].t = "dot" THEN
       \* dotted tail: at least one datum before, exactly one after, then the closing parenthesis
       (IF acc = <<>> THEN [k |-> "error"]
        ELSE LET r == ParseDatum(toks, i + 1) IN
             IF r.k # "ok" THEN r
             ELSE IF r.next > Len(toks) \/ toks[r.next].t # "rp" THEN [k |-> "error"]
             ELSE [k |-> "ok", d |-> ListOf(acc, r.d), next |-> r.next + 1])
  ELSE LET r == ParseDatum(toks, i) IN IF r.k # "ok" THEN r ELSE ParseList(toks, r.next, Append(acc, r.d))
ParseVec(toks, i, acc) ==
  IF i > Len(toks) THEN [k |-> "error"]
  ELSE IF toks[i].t = "rp" THEN [k |-> "ok", d |-> [t |-> "vec", xs |-> acc], next |-> i + 1]
  ELSE LET r == ParseDatum(toks, i) IN IF r.k # "ok" THEN r ELSE ParseVec(toks, r.next, Append(acc, r.d))

RECURSIVE ReadFrom(_, _, _)
ReadFrom(toks, i, acc) ==
  IF i > Len(toks) THEN [k |-> "data", ds |-> acc]
  ELSE LET r == ParseDatum(toks, i) IN IF r.k # "ok" THEN [k |-> "error"] ELSE ReadFrom(toks, r.next, Append(acc, r.d))
ReadAll(toks) == ReadFrom(toks, 1, <<>>)

\* nesting depth after the text: opened minus closed lists/vectors (REPL completeness, C18)
RECURSIVE DepthOf(_, _, _)
DepthOf(toks, i, d) == IF i > Len(toks) THEN d
                       ELSE DepthOf(toks, i + 1, IF toks[i].t \in {"lp", "vecopen"} THEN d + 1
                                                 ELSE IF toks[i].t = "rp" THEN d - 1 ELSE d)

\* ---- agreement between a datum of the specification and a value the implementation produced
\* (implementation values in the harness projection: int v, rat n d, real s e m, bool b, char c, str cs, sym cs, nil, pair a d, vec xs)
DecMatches(dec, o) ==
  /\ o.t = "real"
  /\ LET x == MkReal(o.s, o.e, o.m) IN
     IF dec.digits = <<>> THEN IsZeroR(x) /\ (x.s = 1) = dec.neg
     ELSE IF dec.hugeExp THEN TRUE            \* exponents beyond 9999: zero or infinity, not compared
     ELSE LET r == DecimalRat(dec.digits, dec.exp10) IN Faithful(x, IF dec.neg THEN 1 ELSE 0, r[1], r[2])
RECURSIVE DatumMatches(_, _)
DatumMatches(d, o) ==
  CASE d.t = "int" -> o.t = "int" /\ o.v = d.v
    [] d.t = "rat" -> (o.t = "rat" /\ o.d # 0 /\ BigCmp(BigMul(BigOfInt(o.n), BigOfInt(d.d)), BigMul(BigOfInt(d.n), BigOfInt(o.d))) = 0)
                      \/ (o.t = "int" /\ BigCmp(BigMul(BigOfInt(o.v), BigOfInt(d.d)), BigOfInt(d.n)) = 0)
    [] d.t = "dec" -> DecMatches(d, o)
    [] d.t = "pair" -> o.t = "pair" /\ DatumMatches(d.a, o.a) /\ DatumMatches(d.d, o.d)
    [] d.t = "vec" -> o.t = "vec" /\ Len(o.xs) = Len(d.xs) /\ \A i \in DOMAIN d.xs : DatumMatches(d.xs[i], o.xs[i])
    [] OTHER -> d = o
=============================================================================
