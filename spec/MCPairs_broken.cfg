CONSTANTS
  MaxOps = 2
  Broken = "structural"
INIT Init
NEXT Next
INVARIANT Laws
CHECK_DEADLOCK FALSE
