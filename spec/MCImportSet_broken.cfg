CONSTANTS
  Exports = {"a", "b", "c"}
  Fresh = {"x", "y"}
  PrefixSet = {"p-", "a"}
  Depth = 1
  MaxRename = 2
  PairDepth = 1
  Variant = "seqrename"
SPECIFICATION Spec
INVARIANT Laws
CHECK_DEADLOCK FALSE
