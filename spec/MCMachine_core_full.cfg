CONSTANTS
  GC = FALSE
  Broken = "none"
  Family = "core-full"
  MaxKont = 16
SPECIFICATION Spec
INVARIANT SpellingLaw
INVARIANT FaultLaw
INVARIANT KontBounded
INVARIANT Emit
CHECK_DEADLOCK FALSE
