CONSTANT Full = TRUE
INIT Init
NEXT Next
INVARIANT RoundTrip
INVARIANT Emit
CHECK_DEADLOCK FALSE
