-------------------------------- MODULE Store --------------------------------
(***************************************************************************)
(* Abstract model of mutable state (C03): bindings with identity that      *)
(* closures share, and vectors as objects with identity and aliases.       *)
(* Whole operations are the actions; nothing here knows about frames,      *)
(* continuations or Rc.  Each operation has                                *)
(*   - an effect on the abstract store,                                    *)
(*   - the top-level form that performs it (Form), and                     *)
(*   - the value that form must yield (Result).                            *)
(* MCStore.tla checks that the reference machine refines this model and    *)
(* prints the histories for replay on the real interpreter.                *)
(*                                                                         *)
(* Abstract store:                                                         *)
(*   cnt   counter name -> value of its private binding (0 = undefined: absent from DOMAIN) *)
(*   shr   pair name -> value of the binding its two closures share        *)
(*   obj   vector object id -> [mut, xs]                                   *)
(*   ref   vector variable -> object id                                    *)
(*   box   container variable -> sequence of object ids it holds (a list or a vector of vectors) *)
(*   cap   closure variable -> object id it captured                       *)
(*   lcs   name -> <<b1, b2>>: the private bindings of two closures built in the ARGUMENTS of the *)
(*         tail calls of a loop (each closes over the loop variable of its own iteration)         *)
(***************************************************************************)
EXTENDS Programs

CONSTANTS Counters, Shared, VecOrder, ListVars, CapVars, Vals

VecVars == {VecOrder[i] : i \in DOMAIN VecOrder}

Indexes == {0, 1}

EmptyStore == [cnt |-> <<>>, shr |-> <<>>, obj |-> <<>>, ref |-> <<>>, box |-> <<>>, cap |-> <<>>, kind |-> <<>>, lcs |-> <<>>]
\* (functions with string domains are built with :> and @@; <<>> is the empty function)

Def(f, x) == x \in DOMAIN f
Upd(f, x, v) == (x :> v) @@ f

\* ---- operations: [op |-> name, ...arguments]
Ops(st) ==
       {[op |-> "NewCounter", c |-> c] : c \in Counters}
  \cup {[op |-> "Bump", c |-> c] : c \in {c \in Counters : Def(st.cnt, c)}}
  \cup {[op |-> "NewShared", p |-> p] : p \in Shared}
  \cup {[op |-> "BumpShared", p |-> p] : p \in {p \in Shared : Def(st.shr, p)}}
  \cup {[op |-> "PeekShared", p |-> p] : p \in {p \in Shared : Def(st.shr, p)}}
  \cup {[op |-> "MakeVector", x |-> x] : x \in VecVars}
  \cup {[op |-> "MakeLiteral", x |-> x] : x \in VecVars}
  \cup {[op |-> "Alias", x |-> x, y |-> y] : x \in VecVars, y \in {y \in VecVars : Def(st.ref, y)}}
  \cup {[op |-> "VecSet", x |-> x, i |-> i, v |-> v] : x \in {x \in VecVars : Def(st.ref, x)}, i \in Indexes, v \in Vals}
  \cup {[op |-> "PassAndSet", x |-> x, v |-> v] : x \in {x \in VecVars : Def(st.ref, x)}, v \in Vals}
  \cup {[op |-> "MakeList", l |-> l, x |-> x, y |-> y] :
           l \in ListVars, x \in {x \in VecVars : Def(st.ref, x)}, y \in {y \in VecVars : Def(st.ref, y)}}
  \cup {[op |-> "MakeBoxVector", l |-> l, x |-> x] : l \in ListVars, x \in {x \in VecVars : Def(st.ref, x)}}
  \cup {[op |-> "MakeFilledVector", l |-> l, x |-> x] : l \in ListVars, x \in {x \in VecVars : Def(st.ref, x)}}
  \cup {[op |-> "LoopCounters", c |-> c] : c \in Counters}
  \cup {[op |-> "BumpLoopCounter", c |-> c, j |-> j] : c \in {c \in Counters : Def(st.lcs, c)}, j \in {1, 2}}
  \cup {[op |-> "SetThroughContainer", l |-> l, j |-> j, v |-> v] :
           l \in {l \in ListVars : Def(st.box, l)}, j \in {1, 2}, v \in Vals}
  \cup {[op |-> "Capture", k |-> k, x |-> x] : k \in CapVars, x \in {x \in VecVars : Def(st.ref, x)}}
  \cup {[op |-> "SetThroughClosure", k |-> k, v |-> v] : k \in {k \in CapVars : Def(st.cap, k)}, v \in Vals}

NewObj(st) == Len(st.obj) + 1

\* effect of an operation on the abstract store (an erroneous operation changes nothing)
SetObj(st, o, i, v) == IF st.obj[o].mut THEN [st EXCEPT !.obj[o].xs[i + 1] = v] ELSE st

Effect(st, a) ==
  CASE a.op = "NewCounter"  -> [st EXCEPT !.cnt = Upd(@, a.c, 0),          \* a fresh binding per call of the generator
                                         !.lcs = [x \in DOMAIN st.lcs \ {a.c} |-> st.lcs[x]]]
    [] a.op = "Bump"        -> [st EXCEPT !.cnt[a.c] = @ + 1]
    [] a.op = "NewShared"   -> [st EXCEPT !.shr = Upd(@, a.p, 0)]
    [] a.op = "BumpShared"  -> [st EXCEPT !.shr[a.p] = @ + 1]
    [] a.op = "PeekShared"  -> st
    [] a.op = "MakeVector"  -> [st EXCEPT !.obj = Append(@, [mut |-> TRUE, xs |-> <<0, 0>>]), !.ref = Upd(@, a.x, NewObj(st))]
    [] a.op = "MakeLiteral" -> [st EXCEPT !.obj = Append(@, [mut |-> FALSE, xs |-> <<7, 8>>]), !.ref = Upd(@, a.x, NewObj(st))]
    [] a.op = "Alias"       -> [st EXCEPT !.ref = Upd(@, a.x, st.ref[a.y])]
    [] a.op = "VecSet"      -> SetObj(st, st.ref[a.x], a.i, a.v)
    [] a.op = "PassAndSet"  -> SetObj(st, st.ref[a.x], 0, a.v)
    [] a.op = "MakeList"    -> [st EXCEPT !.box = Upd(@, a.l, <<st.ref[a.x], st.ref[a.y]>>), !.kind = Upd(@, a.l, "list")]
    [] a.op \in {"MakeBoxVector", "MakeFilledVector"} ->
         [st EXCEPT !.box = Upd(@, a.l, <<st.ref[a.x], st.ref[a.x]>>), !.kind = Upd(@, a.l, "vector")]
    [] a.op = "LoopCounters" -> [st EXCEPT !.lcs = Upd(@, a.c, <<1, 2>>), !.cnt = [x \in DOMAIN st.cnt \ {a.c} |-> st.cnt[x]]]
    [] a.op = "BumpLoopCounter" -> [st EXCEPT !.lcs[a.c][a.j] = @ + 10]
    [] a.op = "SetThroughContainer" -> SetObj(st, st.box[a.l][a.j], 1, a.v)
    [] a.op = "Capture"     -> [st EXCEPT !.cap = Upd(@, a.k, st.ref[a.x])]
    [] a.op = "SetThroughClosure" -> SetObj(st, st.cap[a.k], 1, a.v)

Immutable(st, o) == ~st.obj[o].mut
\* what the form of the operation must evaluate to: [k |-> "none"] for definitions
Result(st, a) ==
  LET val(n) == [k |-> "value", v |-> MkInt(n)]
      unspec == [k |-> "value", v |-> Unspec]
      immut == [k |-> "error", kind |-> "ImmutableVector"]
  IN CASE a.op \in {"NewCounter", "NewShared", "MakeVector", "MakeLiteral", "Alias", "MakeList", "MakeBoxVector",
                     "MakeFilledVector", "Capture", "LoopCounters"} -> [k |-> "none"]
       [] a.op = "BumpLoopCounter" -> val(st.lcs[a.c][a.j] + 10)
       [] a.op = "Bump"        -> val(st.cnt[a.c] + 1)
       [] a.op = "BumpShared"  -> val(st.shr[a.p] + 1)
       [] a.op = "PeekShared"  -> val(st.shr[a.p])
       [] a.op \in {"VecSet", "PassAndSet"} -> IF Immutable(st, st.ref[a.x]) THEN immut ELSE unspec
       [] a.op = "SetThroughContainer" -> IF Immutable(st, st.box[a.l][a.j]) THEN immut ELSE unspec
       [] a.op = "SetThroughClosure"   -> IF Immutable(st, st.cap[a.k]) THEN immut ELSE unspec

\* ---- the program text of each operation
GenCounter == Define("make-counter", Lam(<<>>, "", <<B("n", Num(0))>>,
                 <<Lam(<<>>, "", <<>>, <<Set("n", Call("+", <<Var("n"), Num(1)>>)), Var("n")>>)>>))
GenShared == Define("make-shared", Lam(<<>>, "", <<B("n", Num(0))>>,
                 <<Call("cons", <<Lam(<<>>, "", <<>>, <<Set("n", Call("+", <<Var("n"), Num(1)>>)), Var("n")>>),
                                  Lam(<<>>, "", <<>>, <<Var("n")>>)>>)>>))
\* (make-loop-counters n acc): a tail-recursive loop; each iteration conses a closure over ITS OWN n onto acc
GenLoop == Define("make-loop-counters", Lam(<<"n", "acc">>, "", <<>>,
              <<If3(Call("=", <<Var("n"), Num(0)>>), Var("acc"),
                    Call("make-loop-counters", <<Call("-", <<Var("n"), Num(1)>>),
                         Call("cons", <<Lam(<<>>, "", <<>>, <<Set("n", Call("+", <<Var("n"), Num(10)>>)), Var("n")>>), Var("acc")>>)>>))>>))
Prelude == <<GenCounter, GenShared, GenLoop>>

Form(st, a) ==
  CASE a.op = "NewCounter"  -> Define(a.c, Call("make-counter", <<>>))
    [] a.op = "Bump"        -> Call(a.c, <<>>)
    [] a.op = "NewShared"   -> Define(a.p, Call("make-shared", <<>>))
    [] a.op = "BumpShared"  -> App(Call("car", <<Var(a.p)>>), <<>>)
    [] a.op = "PeekShared"  -> App(Call("cdr", <<Var(a.p)>>), <<>>)
    [] a.op = "MakeVector"  -> Define(a.x, Call("vector", <<Num(0), Num(0)>>))
    [] a.op = "MakeLiteral" -> Define(a.x, Quote([t |-> "vlit", xs |-> <<MkInt(7), MkInt(8)>>]))
    [] a.op = "Alias"       -> Define(a.x, Var(a.y))
    [] a.op = "VecSet"      -> Call("vector-set!", <<Var(a.x), Num(a.i), Num(a.v)>>)
    [] a.op = "PassAndSet"  -> App(Fn(<<"param">>, <<Call("vector-set!", <<Var("param"), Num(0), Num(a.v)>>)>>), <<Var(a.x)>>)
    [] a.op = "MakeList"    -> Define(a.l, Call("list", <<Var(a.x), Var(a.y)>>))
    [] a.op = "MakeBoxVector" -> Define(a.l, Call("vector", <<Var(a.x), Var(a.x)>>))
    [] a.op = "MakeFilledVector" -> Define(a.l, Call("make-vector", <<Num(2), Var(a.x)>>))
    [] a.op = "LoopCounters" -> Define(a.c, Call("make-loop-counters", <<Num(2), Quote(Nil)>>))     \* (closure over n=1, closure over n=2)
    [] a.op = "BumpLoopCounter" -> App(Call(IF a.j = 1 THEN "car" ELSE "cadr", <<Var(a.c)>>), <<>>)
    [] a.op = "SetThroughContainer" ->
         IF st.kind[a.l] = "list"
         THEN Call("vector-set!", <<Call(IF a.j = 1 THEN "car" ELSE "cadr", <<Var(a.l)>>), Num(1), Num(a.v)>>)
         ELSE Call("vector-set!", <<Call("vector-ref", <<Var(a.l), Num(a.j - 1)>>), Num(1), Num(a.v)>>)
    [] a.op = "Capture"     -> Define(a.k, App(Fn(<<"held">>, <<Fn(<<"val">>, <<Call("vector-set!", <<Var("held"), Num(1), Var("val")>>)>>)>>), <<Var(a.x)>>))
    [] a.op = "SetThroughClosure" -> Call(a.k, <<Num(a.v)>>)

\* ---- observation: a probe form listing every vector variable, and what it must show
SortedVecVars(st) == LET S == {x \in VecVars : Def(st.ref, x)} IN
  LET RECURSIVE Sel(_) Sel(i) == IF i > Len(VecOrder) THEN <<>> ELSE (IF VecOrder[i] \in S THEN <<VecOrder[i]>> ELSE <<>>) \o Sel(i + 1) IN Sel(1)
ProbeForm(st) == Call("list", [i \in DOMAIN SortedVecVars(st) |-> Var(SortedVecVars(st)[i])])
ProbeContents(st) == MkList([i \in DOMAIN SortedVecVars(st) |->
                               [t |-> "vec", xs |-> [j \in DOMAIN st.obj[st.ref[SortedVecVars(st)[i]]].xs |->
                                                        MkInt(st.obj[st.ref[SortedVecVars(st)[i]]].xs[j])]]])
ProbeAliases(st) == [i \in DOMAIN SortedVecVars(st) |-> st.ref[SortedVecVars(st)[i]]]
=============================================================================
