------------------------------- MODULE Machine -------------------------------
(***************************************************************************)
(* Reference evaluator: a CESK-style abstract machine for the Scheme       *)
(* subset Ruschm implements, written from R7RS (sections 3.5, 4.1, 4.2,    *)
(* 5.3, 6) - not from the Rust code: derived forms have direct rules (the  *)
(* bundled syntax-rules text is under test, not part of the oracle), list  *)
(* procedures are defined on the data, not by interpreting base.sld.       *)
(*                                                                         *)
(* The machine is a pure function  Step : State -> State  so that other    *)
(* modules can run one machine (MC*, *Trace) or several (Interp).          *)
(*                                                                         *)
(* State record:                                                           *)
(*   ctrl    [m |-> "eval", e, env] | [m |-> "ret", v] | [m |-> "apply", f, args] *)
(*   kont    sequence of continuation frames, innermost first              *)
(*   frames  frame id -> [parent, vars]   (LexicalScope{parent,definitions}); id 1 = global *)
(*   vecs    vector id -> [mut, xs]       (ValueReference::{Mutable,Immutable}) *)
(*   out     sequence of observable effects of the current form (tick labels, displayed values) *)
(*   status  "run" | "done" ;  result  outcome of the current form         *)
(*                                                                         *)
(* Proper tail recursion by construction: a rule that continues with the   *)
(* last sub-form of its construct removes its own frame first, so          *)
(* Len(kont) is the R7RS space measure of the continuation.                *)
(***************************************************************************)
EXTENDS Numbers

CONSTANT Broken      \* "none" in the specification proper.  Other values select a deliberately broken machine,
                     \* used only to show that TLC rejects it (sensitivity of the properties checked on the model):
                     \*   "nontail-if"      keeps a frame while the selected arm of an if runs        (C02)
                     \*   "set-defines"     set! of a non-local variable defines it in the current frame (C03)
                     \*   "copy-on-bind"    a vector bound to a parameter is copied                   (C03)
NonTailIf == Broken = "nontail-if"
CONSTANT GC    \* BOOLEAN: collect unreachable frames at calls and reuse the smallest free id
               \* (makes non-terminating tail loops finite-state, C02)

----------------------------------------------------------------------------
(* state helpers *)
Ev(e, env) == [m |-> "eval", e |-> e, env |-> env]
Ret(v) == [m |-> "ret", v |-> v]
Ap(f, args) == [m |-> "apply", f |-> f, args |-> args]
EmptyVars == [x \in {} |-> Unspec]
Bind(vars, x, v) == (x :> v) @@ vars
GlobalFrame == 1

\* syn: the instance's own table of user-defined syntax (keyword -> which definition); abstract: a use of keyword kw
\* defined by definition k rewrites (kw ARG) to (list 'k)
InitState == [ctrl |-> Ret(Unspec), kont |-> <<>>,
              frames |-> (GlobalFrame :> [parent |-> 0, vars |-> EmptyVars]),
              vecs |-> <<>>, out |-> <<>>, status |-> "done", result |-> [k |-> "none"], syn |-> EmptyVars]

Fail(s, kind) == [s EXCEPT !.status = "done", !.result = [k |-> "error", kind |-> kind],
                           !.ctrl = Ret(Unspec), !.kont = <<>>]
Push(fr, k) == <<fr>> \o k

PrimNames == {
  "+", "-", "*", "/", "=", "<", ">", "<=", ">=", "abs", "min", "max", "floor", "ceiling",
  "floor-quotient", "floor-remainder", "not", "eq?", "eqv?", "equal?",
  "boolean?", "number?", "symbol?", "procedure?", "vector?", "pair?", "null?", "list?", "char?", "string?",
  "car", "cdr", "cons", "list", "make-list", "append", "list-tail", "list-ref", "last-pair", "memq", "memv",
  "caar", "cadr", "cdar", "cddr", "caaar", "caadr", "cadar", "caddr", "cdaar", "cdadr", "cddar", "cdddr",
  "apply", "map", "for-each", "fold-left", "fold-right",
  "vector", "make-vector", "vector-length", "vector-ref", "vector-set!",
  "tick!", "probe!", "display", "newline"}

\* <<number of required arguments, accepts more>>
PrimArity(n) ==
  CASE n \in {"+", "*", "=", "<", ">", "<=", ">=", "list", "vector", "append"} -> <<0, TRUE>>
    [] n \in {"-", "/", "min", "max", "tick!"} -> <<1, TRUE>>
    [] n = "apply" -> <<1, TRUE>>
    [] n = "newline" -> <<0, FALSE>>
    [] n \in {"eq?", "eqv?", "equal?", "cons", "floor-quotient", "floor-remainder", "make-list", "list-tail",
              "list-ref", "memq", "memv", "map", "for-each", "make-vector", "vector-ref", "probe!"} -> <<2, FALSE>>
    [] n \in {"fold-left", "fold-right", "vector-set!"} -> <<3, FALSE>>
    [] OTHER -> <<1, FALSE>>

----------------------------------------------------------------------------
(* environments *)
RECURSIVE DefiningFrame(_, _, _)
DefiningFrame(frames, f, x) ==
  IF f = 0 THEN 0
  ELSE IF x \in DOMAIN frames[f].vars THEN f
  ELSE DefiningFrame(frames, frames[f].parent, x)

\* values reachable from a value / frame ids reachable (abstract garbage collection)
RECURSIVE FramesOfValue(_)
FramesOfValue(v) ==
  CASE v.t = "clo"  -> {v.env}
    [] v.t = "pair" -> FramesOfValue(v.a) \cup FramesOfValue(v.d)
    [] OTHER -> {}
RECURSIVE VecsOfValue(_)
VecsOfValue(v) ==
  CASE v.t = "vec"  -> {v.id}
    [] v.t = "pair" -> VecsOfValue(v.a) \cup VecsOfValue(v.d)
    [] OTHER -> {}
SeqValues(s) == {s[i] : i \in DOMAIN s}
KontRoots(fr) ==   \* <<frame ids, values>> a continuation frame keeps alive
  <<(IF "env" \in DOMAIN fr THEN {fr.env} ELSE {}),
    (IF "done" \in DOMAIN fr THEN SeqValues(fr.done) ELSE {})
      \cup (IF "v" \in DOMAIN fr THEN {fr.v} ELSE {})
      \cup (IF "f" \in DOMAIN fr THEN {fr.f} ELSE {})
      \cup (IF "todo" \in DOMAIN fr /\ fr.k \in {"map", "foreach", "foldl", "foldr"} THEN SeqValues(fr.todo) ELSE {})>>
RootFrames(s) ==
  LET cv == CASE s.ctrl.m = "eval" -> <<{s.ctrl.env}, {}>>
              [] s.ctrl.m = "ret" -> <<{}, {s.ctrl.v}>>
              [] s.ctrl.m = "apply" -> <<{}, {s.ctrl.f} \cup SeqValues(s.ctrl.args)>>
      ks == {KontRoots(s.kont[i]) : i \in DOMAIN s.kont}
      fids == cv[1] \cup UNION {r[1] : r \in ks} \cup {GlobalFrame}
      vals == cv[2] \cup UNION {r[2] : r \in ks}
  IN fids \cup UNION {FramesOfValue(v) : v \in vals}
\* (vectors holding closures are not traced: programs used with GC do not store closures in vectors)
RECURSIVE CloseFrames(_, _)
CloseFrames(frames, S) ==
  LET more == {frames[f].parent : f \in S} \ {0}
      inner == UNION {UNION {FramesOfValue(frames[f].vars[x]) : x \in DOMAIN frames[f].vars} : f \in S}
      new == (more \cup inner) \ S
  IN IF new = {} THEN S ELSE CloseFrames(frames, S \cup new)
Collect(s, extra) == LET live == CloseFrames(s.frames, RootFrames(s) \cup extra)
                     IN [s EXCEPT !.frames = [f \in live |-> s.frames[f]]]
FreshFrame(frames) ==
  IF GC THEN CHOOSE n \in 1..(Cardinality(DOMAIN frames) + 1) :
               n \notin DOMAIN frames /\ \A m \in 1..(n - 1) : m \in DOMAIN frames
  ELSE Cardinality(DOMAIN frames) + 1
FreshVec(vecs) == Len(vecs) + 1

----------------------------------------------------------------------------
(* quoted data: vector literals become immutable vector objects, allocated per evaluation *)
RECURSIVE Reify(_, _)
Reify(d, vecs) ==     \* -> [v |-> value, vecs |-> vecs']
  CASE d.t = "vlit" ->
         LET RECURSIVE Each(_, _, _)
             Each(i, acc, vs) == IF i > Len(d.xs) THEN [xs |-> acc, vecs |-> vs]
                                 ELSE LET r == Reify(d.xs[i], vs) IN Each(i + 1, Append(acc, r.v), r.vecs)
             r == Each(1, <<>>, vecs)
             id == Len(r.vecs) + 1
         IN [v |-> [t |-> "vec", id |-> id], vecs |-> Append(r.vecs, [mut |-> FALSE, xs |-> r.xs])]
    [] d.t = "pair" ->
         LET ra == Reify(d.a, vecs)
             rd == Reify(d.d, ra.vecs)
         IN [v |-> Cons(ra.v, rd.v), vecs |-> rd.vecs]
    [] OTHER -> [v |-> d, vecs |-> vecs]

\* observable form of a value: vectors by content, procedures opaque
RECURSIVE Show(_, _)
Show(v, vecs) ==
  CASE v.t = "vec"  -> [t |-> "vec", xs |-> [i \in DOMAIN vecs[v.id].xs |-> Show(vecs[v.id].xs[i], vecs)]]
    [] v.t = "pair" -> Cons(Show(v.a, vecs), Show(v.d, vecs))
    [] v.t \in {"clo", "prim"} -> [t |-> "proc"]
    [] OTHER -> v
\* the alias structure of the vectors inside a value: sequence of ids in traversal order
RECURSIVE VecIds(_, _)
VecIds(v, vecs) ==
  CASE v.t = "vec"  -> <<v.id>> \o
          (LET RECURSIVE Each(_) Each(i) == IF i > Len(vecs[v.id].xs) THEN <<>> ELSE VecIds(vecs[v.id].xs[i], vecs) \o Each(i + 1) IN Each(1))
    [] v.t = "pair" -> VecIds(v.a, vecs) \o VecIds(v.d, vecs)
    [] OTHER -> <<>>

----------------------------------------------------------------------------
(* sequencing helpers; k is the continuation to resume when the construct returns *)
StartSeq(s, es, env, k) ==
  IF Len(es) = 1 THEN [s EXCEPT !.ctrl = Ev(es[1], env), !.kont = k]           \* tail position
  ELSE [s EXCEPT !.ctrl = Ev(es[1], env), !.kont = Push([k |-> "seq", rest |-> Tail(es), env |-> env], k)]

StartBody(s, defs, body, env, k) ==
  IF defs = <<>> THEN StartSeq(s, body, env, k)
  ELSE [s EXCEPT !.ctrl = Ev(defs[1].e, env),
                 !.kont = Push([k |-> "bodydef", x |-> defs[1].x, defs |-> Tail(defs), body |-> body, env |-> env], k)]

NewFrame(s, parent, vars) ==
  LET s0 == IF GC THEN Collect(s, {parent}) ELSE s      \* the new frame's parent is live by definition
      fid == FreshFrame(s0.frames)
  IN [st |-> [s0 EXCEPT !.frames = (fid :> [parent |-> parent, vars |-> vars]) @@ @], fid |-> fid]

----------------------------------------------------------------------------
(* EVAL rules *)
EvalVar(s, e, env) ==
  LET f == DefiningFrame(s.frames, env, e.x) IN
  IF f # 0 THEN [s EXCEPT !.ctrl = Ret(s.frames[f].vars[e.x])]
  ELSE IF e.x \in PrimNames THEN [s EXCEPT !.ctrl = Ret([t |-> "prim", name |-> e.x])]
  ELSE Fail(s, "Unbound")

EvalCond(s, cls, els, env, k) ==       \* cond: clauses left to right
  IF cls = <<>> THEN (IF els = <<>> THEN [s EXCEPT !.ctrl = Ret(Unspec), !.kont = k]
                      ELSE StartSeq(s, els[1], env, k))
  ELSE [s EXCEPT !.ctrl = Ev(cls[1].c, env),
                 !.kont = Push([k |-> "cond", cl |-> cls[1], rest |-> Tail(cls), els |-> els, env |-> env], k)]

EvalStep(s) ==
  LET e == s.ctrl.e
      env == s.ctrl.env
      k == s.kont
  IN CASE e.t = "lit" -> [s EXCEPT !.ctrl = Ret(e.v)]
       [] e.t = "quote" -> LET r == Reify(e.d, s.vecs) IN [s EXCEPT !.ctrl = Ret(r.v), !.vecs = r.vecs]
       [] e.t = "var" -> EvalVar(s, e, env)
       [] e.t = "lam" -> [s EXCEPT !.ctrl = Ret([t |-> "clo", lam |-> e, env |-> env])]
       [] e.t = "app" -> [s EXCEPT !.ctrl = Ev(e.f, env),
                                   !.kont = Push([k |-> "arg", todo |-> e.as, done |-> <<>>, env |-> env], k)]
       [] e.t = "if" -> [s EXCEPT !.ctrl = Ev(e.c, env),
                                  !.kont = Push([k |-> "if", a |-> e.a, b |-> e.b, env |-> env], k)]
       [] e.t = "set" -> [s EXCEPT !.ctrl = Ev(e.e, env), !.kont = Push([k |-> "set", x |-> e.x, env |-> env], k)]
       \* ---- derived forms (R7RS 4.2), direct semantics
       [] e.t = "begin" -> StartSeq(s, e.es, env, k)
       [] e.t = "let" ->
            IF e.bs = <<>>
            THEN LET n == NewFrame(s, env, EmptyVars) IN StartBody(n.st, e.defs, e.body, n.fid, k)
            ELSE [s EXCEPT !.ctrl = Ev(e.bs[1].e, env),
                           !.kont = Push([k |-> "let", bs |-> e.bs, i |-> 1, done |-> <<>>, defs |-> e.defs,
                                          body |-> e.body, env |-> env], k)]
       [] e.t = "letstar" ->
            IF e.bs = <<>>
            THEN LET n == NewFrame(s, env, EmptyVars) IN StartBody(n.st, e.defs, e.body, n.fid, k)
            ELSE [s EXCEPT !.ctrl = Ev(e.bs[1].e, env),
                           !.kont = Push([k |-> "letstar", bs |-> e.bs, i |-> 1, defs |-> e.defs, body |-> e.body,
                                          env |-> env], k)]
       [] e.t = "cond" -> EvalCond(s, e.cls, e.els, env, k)
       [] e.t = "case" -> [s EXCEPT !.ctrl = Ev(e.key, env),
                                    !.kont = Push([k |-> "case", cls |-> e.cls, els |-> e.els, env |-> env], k)]
       [] e.t = "and" ->
            IF e.es = <<>> THEN [s EXCEPT !.ctrl = Ret(True)]
            ELSE IF Len(e.es) = 1 THEN [s EXCEPT !.ctrl = Ev(e.es[1], env)]
            ELSE [s EXCEPT !.ctrl = Ev(e.es[1], env), !.kont = Push([k |-> "and", rest |-> Tail(e.es), env |-> env], k)]
       [] e.t = "or" ->
            IF e.es = <<>> THEN [s EXCEPT !.ctrl = Ret(False)]
            ELSE IF Len(e.es) = 1 THEN [s EXCEPT !.ctrl = Ev(e.es[1], env)]
            ELSE [s EXCEPT !.ctrl = Ev(e.es[1], env), !.kont = Push([k |-> "or", rest |-> Tail(e.es), env |-> env], k)]
       \* a use (kw ARG) of a keyword: user-defined syntax of THIS instance if there is a definition, else the
       \* standard meaning (for cond: (cond (#t ARG)) is ARG), else an unbound variable
       [] e.t = "macrouse" ->
            IF e.kw \in DOMAIN s.syn
            THEN [s EXCEPT !.ctrl = Ret(MkList(<<MkSym(s.syn[e.kw])>>))]      \* the template (list 'k): the argument is not evaluated
            ELSE IF e.kw = "cond" THEN [s EXCEPT !.ctrl = Ev(e.arg, env)]
            ELSE Fail(s, "Unbound")
       [] e.t \in {"when", "unless"} ->
            [s EXCEPT !.ctrl = Ev(e.c, env),
                      !.kont = Push([k |-> "when", es |-> e.es, neg |-> (e.t = "unless"), env |-> env], k)]

----------------------------------------------------------------------------
(* builtins that neither call procedures nor touch the vector store *)
Ok(v) == [ok |-> TRUE, v |-> v]
Err(kind) == [ok |-> FALSE, kind |-> kind]
AllNumbers(args) == \A i \in DOMAIN args : IsExact(args[i])

RECURSIVE FoldNum(_, _, _, _)
FoldNum(Op(_, _), acc, args, i) == IF i > Len(args) THEN acc ELSE FoldNum(Op, Op(acc, args[i]), args, i + 1)
RECURSIVE Chain(_, _, _)
Chain(Rel(_, _), args, i) == IF i >= Len(args) THEN TRUE
                             ELSE Rel(args[i], args[i + 1]) /\ Chain(Rel, args, i + 1)
NumLe(a, b) == ~NumLess(b, a)
NumGt(a, b) == NumLess(b, a)
NumGe(a, b) == ~NumLess(a, b)

\* eqv? on the domain where R7RS fixes it (numbers, booleans, characters, symbols, (), vectors)
EqvDefined(a, b) == \/ \A v \in {a, b} : v.t \in {"int", "rat", "bool", "char", "sym", "nil", "vec", "unspec"}
                    \/ (a.t # b.t /\ ~(IsExact(a) /\ IsExact(b)))
Eqv(a, b) == IF IsExact(a) /\ IsExact(b) THEN NumEq(a, b) ELSE a = b
RECURSIVE Equal(_, _)
Equal(a, b) == IF a.t = "pair" /\ b.t = "pair" THEN Equal(a.a, b.a) /\ Equal(a.d, b.d)
               ELSE IF IsExact(a) /\ IsExact(b) THEN NumEq(a, b) ELSE a = b

RECURSIVE Member(_, _)
Member(x, l) == IF l.t # "pair" THEN (IF l.t = "nil" THEN Ok(False) ELSE Err("WrongType"))
                ELSE IF Eqv(x, l.a) THEN Ok(l) ELSE Member(x, l.d)
RECURSIVE AppendTwo(_, _)
AppendTwo(a, b) == IF a.t = "pair" THEN Cons(a.a, AppendTwo(a.d, b)) ELSE b
RECURSIVE AppendAll(_, _)
AppendAll(args, i) ==      \* every argument but the last must be a proper list
  IF i > Len(args) THEN Ok(Nil)
  ELSE IF i = Len(args) THEN Ok(args[i])
  ELSE IF ~IsList(args[i]) THEN Err("WrongType")
  ELSE LET r == AppendAll(args, i + 1) IN IF r.ok THEN Ok(AppendTwo(args[i], r.v)) ELSE r
RECURSIVE Cxr(_, _)
Cxr(path, v) ==   \* path: sequence of "a"/"d", applied right to left (cadr = car of cdr)
  IF path = <<>> THEN Ok(v)
  ELSE LET r == Cxr(Tail(path), v) IN
       IF ~r.ok THEN r ELSE IF r.v.t # "pair" THEN Err("WrongType")
       ELSE Ok(IF Head(path) = "a" THEN r.v.a ELSE r.v.d)
CxrPath(n) == CASE n = "car" -> <<"a">> [] n = "cdr" -> <<"d">>
  [] n = "caar" -> <<"a", "a">> [] n = "cadr" -> <<"a", "d">> [] n = "cdar" -> <<"d", "a">> [] n = "cddr" -> <<"d", "d">>
  [] n = "caaar" -> <<"a", "a", "a">> [] n = "caadr" -> <<"a", "a", "d">> [] n = "cadar" -> <<"a", "d", "a">>
  [] n = "caddr" -> <<"a", "d", "d">> [] n = "cdaar" -> <<"d", "a", "a">> [] n = "cdadr" -> <<"d", "a", "d">>
  [] n = "cddar" -> <<"d", "d", "a">> [] n = "cdddr" -> <<"d", "d", "d">>
RECURSIVE NthCdr(_, _)
NthCdr(l, n) == IF n = 0 THEN Ok(l) ELSE IF l.t # "pair" THEN Err("WrongType") ELSE NthCdr(l.d, n - 1)
RECURSIVE LastPair(_)
LastPair(l) == IF l.d.t = "pair" THEN LastPair(l.d) ELSE l
RECURSIVE Repeat(_, _)
Repeat(n, v) == IF n <= 0 THEN Nil ELSE Cons(v, Repeat(n - 1, v))

IsCxr(n) == n \in {"car", "cdr", "caar", "cadr", "cdar", "cddr", "caaar", "caadr", "cadar", "caddr", "cdaar", "cdadr", "cddar", "cdddr"}

PurePrim(n, a) ==
  CASE n \in {"+", "*", "-", "/", "=", "<", ">", "<=", ">=", "abs", "min", "max", "floor", "ceiling",
              "floor-quotient", "floor-remainder"} ->
         IF ~AllNumbers(a) THEN Err("WrongType")
         ELSE (CASE n = "+" -> Ok(FoldNum(NumAdd, MkInt(0), a, 1))
                [] n = "*" -> Ok(FoldNum(NumMul, MkInt(1), a, 1))
                [] n = "-" -> IF Len(a) = 1 THEN Ok(NumNeg(a[1])) ELSE Ok(FoldNum(NumSub, a[1], a, 2))
                [] n = "/" -> IF \E i \in DOMAIN a : (i > 1 \/ Len(a) = 1) /\ NumIsZero(a[i]) THEN Err("DivByZero")
                              ELSE IF Len(a) = 1 THEN Ok(NumDiv(MkInt(1), a[1])) ELSE Ok(FoldNum(NumDiv, a[1], a, 2))
                [] n = "=" -> Ok(MkBool(Chain(NumEq, a, 1)))
                [] n = "<" -> Ok(MkBool(Chain(NumLess, a, 1)))
                [] n = ">" -> Ok(MkBool(Chain(NumGt, a, 1)))
                [] n = "<=" -> Ok(MkBool(Chain(NumLe, a, 1)))
                [] n = ">=" -> Ok(MkBool(Chain(NumGe, a, 1)))
                [] n = "abs" -> Ok(NumAbs(a[1]))
                [] n = "min" -> Ok(FoldNum(NumMin, a[1], a, 2))
                [] n = "max" -> Ok(FoldNum(NumMax, a[1], a, 2))
                [] n = "floor" -> Ok(NumFloor(a[1]))
                [] n = "ceiling" -> Ok(NumCeiling(a[1]))
                [] n = "floor-quotient" -> IF NumIsZero(a[2]) THEN Err("DivByZero") ELSE Ok(NumFloorQuo(a[1], a[2]))
                [] n = "floor-remainder" -> IF NumIsZero(a[2]) THEN Err("DivByZero") ELSE Ok(NumFloorRem(a[1], a[2])))
    [] n = "not" -> Ok(MkBool(~Truthy(a[1])))
    [] n \in {"eq?", "eqv?"} -> IF EqvDefined(a[1], a[2]) THEN Ok(MkBool(Eqv(a[1], a[2]))) ELSE Ok(Unspec)
    [] n = "equal?" -> Ok(MkBool(Equal(a[1], a[2])))
    [] n = "boolean?" -> Ok(MkBool(a[1].t = "bool"))
    [] n = "number?" -> Ok(MkBool(IsNumber(a[1])))
    [] n = "symbol?" -> Ok(MkBool(a[1].t = "sym"))
    [] n = "char?" -> Ok(MkBool(a[1].t = "char"))
    [] n = "string?" -> Ok(MkBool(a[1].t = "str"))
    [] n = "procedure?" -> Ok(MkBool(IsProc(a[1])))
    [] n = "vector?" -> Ok(MkBool(a[1].t = "vec"))
    [] n = "pair?" -> Ok(MkBool(a[1].t = "pair"))
    [] n = "null?" -> Ok(MkBool(a[1].t = "nil"))
    [] n = "list?" -> Ok(MkBool(IsList(a[1])))
    [] IsCxr(n) -> Cxr(CxrPath(n), a[1])
    [] n = "cons" -> Ok(Cons(a[1], a[2]))
    [] n = "list" -> Ok(MkList(a))
    [] n = "make-list" -> IF a[1].t # "int" THEN Err("WrongType") ELSE Ok(Repeat(a[1].v, a[2]))
    [] n = "append" -> AppendAll(a, 1)
    [] n = "list-tail" -> IF a[2].t # "int" \/ a[2].v < 0 THEN Err("WrongType") ELSE NthCdr(a[1], a[2].v)
    [] n = "list-ref" -> IF a[2].t # "int" \/ a[2].v < 0 THEN Err("WrongType")
                         ELSE LET r == NthCdr(a[1], a[2].v) IN
                              IF ~r.ok THEN r ELSE IF r.v.t # "pair" THEN Err("WrongType") ELSE Ok(r.v.a)
    [] n = "last-pair" -> IF a[1].t # "pair" THEN Err("WrongType") ELSE Ok(LastPair(a[1]))
    [] n \in {"memq", "memv"} -> Member(a[1], a[2])

----------------------------------------------------------------------------
(* APPLY rules *)
ApplyClosure(s, f, args, k) ==
  LET lam == f.lam
      np == Len(lam.ps)
  IN IF Len(args) < np \/ (Len(args) > np /\ lam.rest = "") THEN Fail(s, "Arity")
     ELSE LET copied == IF Broken = "copy-on-bind" /\ \E i \in DOMAIN args : args[i].t = "vec"
                        THEN LET i == CHOOSE i \in DOMAIN args : args[i].t = "vec" IN
                             [vecs |-> Append(s.vecs, s.vecs[args[i].id]),
                              args |-> [args EXCEPT ![i] = [t |-> "vec", id |-> Len(s.vecs) + 1]]]
                        ELSE [vecs |-> s.vecs, args |-> args]
              fixed == [x \in {lam.ps[i] : i \in 1..np} |->
                           copied.args[CHOOSE i \in 1..np : lam.ps[i] = x /\ \A j \in (i + 1)..np : lam.ps[j] # x]]
              vars == IF lam.rest = "" THEN fixed
                      ELSE Bind(fixed, lam.rest, MkList(SubSeq(args, np + 1, Len(args))))
              n == NewFrame([s EXCEPT !.ctrl = Ap(f, args), !.kont = k, !.vecs = copied.vecs], f.env, vars)   \* fresh bindings per call
          IN StartBody(n.st, lam.defs, lam.body, n.fid, k)

\* continue a list-walking library procedure (map / for-each / folds): call f on the next element
NextHof(s, fr, k) ==
  CASE fr.k = "map" ->
         IF fr.todo = <<>> THEN [s EXCEPT !.ctrl = Ret(ListFromSeq(fr.done, fr.tl)), !.kont = k]
         ELSE [s EXCEPT !.ctrl = Ap(fr.f, <<fr.todo[1]>>), !.kont = Push([fr EXCEPT !.todo = Tail(@)], k)]
    [] fr.k = "foreach" ->
         IF fr.todo = <<>> THEN [s EXCEPT !.ctrl = Ret(Unspec), !.kont = k]
         ELSE [s EXCEPT !.ctrl = Ap(fr.f, <<fr.todo[1]>>), !.kont = Push([fr EXCEPT !.todo = Tail(@)], k)]
    [] fr.k = "foldl" ->      \* (f elem acc), left to right
         IF fr.todo = <<>> THEN [s EXCEPT !.ctrl = Ret(fr.v), !.kont = k]
         ELSE [s EXCEPT !.ctrl = Ap(fr.f, <<fr.todo[1], fr.v>>), !.kont = Push([fr EXCEPT !.todo = Tail(@)], k)]
    [] fr.k = "foldr" ->      \* (f elem (fold-right ...)): calls happen from the last element backwards
         IF fr.todo = <<>> THEN [s EXCEPT !.ctrl = Ret(fr.v), !.kont = k]
         ELSE [s EXCEPT !.ctrl = Ap(fr.f, <<fr.todo[Len(fr.todo)], fr.v>>),
                        !.kont = Push([fr EXCEPT !.todo = SubSeq(@, 1, Len(@) - 1)], k)]

ApplyPrim(s, n, a, k) ==
  LET ar == PrimArity(n) IN
  IF Len(a) < ar[1] \/ (Len(a) > ar[1] /\ ~ar[2]) THEN Fail(s, "Arity")
  ELSE CASE n = "apply" ->
              IF ~IsProc(a[1]) THEN Fail(s, "NonProcedure")
              ELSE IF Len(a) = 1 THEN [s EXCEPT !.ctrl = Ap(a[1], <<>>), !.kont = k]
              ELSE LET last == a[Len(a)] IN
                   IF ~(last.t \in {"pair", "nil"}) THEN Fail(s, "WrongType")
                   ELSE [s EXCEPT !.ctrl = Ap(a[1], SubSeq(a, 2, Len(a) - 1) \o Elems(last)), !.kont = k]
         [] n \in {"map", "for-each"} ->
              IF ~IsProc(a[1]) /\ a[2].t = "pair" THEN Fail(s, "NonProcedure")
              ELSE NextHof(s, [k |-> (IF n = "map" THEN "map" ELSE "foreach"), f |-> a[1], todo |-> Elems(a[2]),
                               done |-> <<>>, tl |-> LastCdr(a[2])], k)
         [] n \in {"fold-left", "fold-right"} ->
              IF ~IsList(a[3]) THEN Fail(s, "WrongType")
              ELSE IF ~IsProc(a[1]) /\ a[3].t = "pair" THEN Fail(s, "NonProcedure")
              ELSE NextHof(s, [k |-> (IF n = "fold-left" THEN "foldl" ELSE "foldr"), f |-> a[1], todo |-> Elems(a[3]),
                               v |-> a[2]], k)
         [] n = "tick!" -> [s EXCEPT !.out = Append(@, Show(a[1], s.vecs)),
                                     !.ctrl = Ret(IF Len(a) >= 2 THEN a[2] ELSE a[1]), !.kont = k]
         \* (probe! site iter): observation point; records the depth of the continuation (the R7RS space measure)
         [] n = "probe!" -> [s EXCEPT !.out = Append(@, [t |-> "probe", site |-> a[1], iter |-> a[2], depth |-> Len(k)]),
                                      !.ctrl = Ret(a[2]), !.kont = k]
         [] n = "display" -> [s EXCEPT !.out = Append(@, [t |-> "display", v |-> Show(a[1], s.vecs)]),
                                       !.ctrl = Ret(Unspec), !.kont = k]
         [] n = "newline" -> [s EXCEPT !.out = Append(@, [t |-> "newline"]), !.ctrl = Ret(Unspec), !.kont = k]
         [] n = "vector" -> [s EXCEPT !.vecs = Append(@, [mut |-> TRUE, xs |-> a]),
                                      !.ctrl = Ret([t |-> "vec", id |-> FreshVec(s.vecs)]), !.kont = k]
         [] n = "make-vector" ->
              IF a[1].t # "int" THEN Fail(s, "WrongType")
              ELSE IF a[1].v < 0 THEN Fail(s, "NegativeLength")
              ELSE [s EXCEPT !.vecs = Append(@, [mut |-> TRUE, xs |-> [i \in 1..a[1].v |-> a[2]]]),
                             !.ctrl = Ret([t |-> "vec", id |-> FreshVec(s.vecs)]), !.kont = k]
         [] n = "vector-length" ->
              IF a[1].t # "vec" THEN Fail(s, "WrongType")
              ELSE [s EXCEPT !.ctrl = Ret(MkInt(Len(s.vecs[a[1].id].xs))), !.kont = k]
         [] n = "vector-ref" ->
              IF a[1].t # "vec" \/ a[2].t # "int" THEN Fail(s, "WrongType")
              ELSE IF a[2].v < 0 \/ a[2].v >= Len(s.vecs[a[1].id].xs) THEN Fail(s, "IndexRange")
              ELSE [s EXCEPT !.ctrl = Ret(s.vecs[a[1].id].xs[a[2].v + 1]), !.kont = k]
         [] n = "vector-set!" ->
              IF a[1].t # "vec" \/ a[2].t # "int" THEN Fail(s, "WrongType")
              \* a constant vector AND an index outside it: two faults, either may be the one reported
              ELSE IF ~s.vecs[a[1].id].mut /\ (a[2].v < 0 \/ a[2].v >= Len(s.vecs[a[1].id].xs)) THEN Fail(s, "ImmutableVector|IndexRange")
              ELSE IF ~s.vecs[a[1].id].mut THEN Fail(s, "ImmutableVector")
              ELSE IF a[2].v < 0 \/ a[2].v >= Len(s.vecs[a[1].id].xs) THEN Fail(s, "IndexRange")
              ELSE [s EXCEPT !.vecs[a[1].id].xs[a[2].v + 1] = a[3], !.ctrl = Ret(Unspec), !.kont = k]
         [] OTHER -> LET r == PurePrim(n, a) IN
                     IF r.ok THEN [s EXCEPT !.ctrl = Ret(r.v), !.kont = k] ELSE Fail(s, r.kind)

ApplyStep(s) ==
  LET f == s.ctrl.f
      args == s.ctrl.args
  IN CASE f.t = "clo" -> ApplyClosure(s, f, args, s.kont)
       [] f.t = "prim" -> ApplyPrim(s, f.name, args, s.kont)
       [] OTHER -> Fail(s, "NonProcedure")

----------------------------------------------------------------------------
(* RETURN rules: a value reaches the innermost continuation frame *)
RECURSIVE CaseSelect(_, _)
CaseSelect(key, cls) ==   \* index of the first clause one of whose data is eqv? to the key, or 0
  IF cls = <<>> THEN 0
  \* (a datum that is a pair or a vector is a constant of the program text: no computed key is eqv? to it)
  ELSE IF \E i \in DOMAIN cls[1].ds : cls[1].ds[i].t \notin {"pair", "vlit", "vec"} /\ Eqv(key, cls[1].ds[i]) THEN 1
  ELSE LET r == CaseSelect(key, Tail(cls)) IN IF r = 0 THEN 0 ELSE r + 1

ReturnStep(s) ==
  LET v == s.ctrl.v IN
  IF s.kont = <<>> THEN [s EXCEPT !.status = "done", !.result = [k |-> "value", v |-> Show(v, s.vecs)]]
  ELSE
  LET fr == s.kont[1]
      k == Tail(s.kont)
  IN CASE fr.k = "arg" ->
            LET done == Append(fr.done, v) IN
            IF fr.todo = <<>> THEN [s EXCEPT !.ctrl = Ap(done[1], Tail(done)), !.kont = k]     \* the call replaces its frame
            ELSE [s EXCEPT !.ctrl = Ev(fr.todo[1], fr.env),
                           !.kont = Push([fr EXCEPT !.todo = Tail(@), !.done = done], k)]
       [] fr.k = "if" ->
            LET k2 == IF NonTailIf THEN Push([k |-> "id"], k) ELSE k IN
            IF Truthy(v) THEN [s EXCEPT !.ctrl = Ev(fr.a, fr.env), !.kont = k2]
            ELSE IF fr.b = <<>> THEN [s EXCEPT !.ctrl = Ret(Unspec), !.kont = k]
            ELSE [s EXCEPT !.ctrl = Ev(fr.b[1], fr.env), !.kont = k2]
       [] fr.k = "id" -> [s EXCEPT !.kont = k]
       [] fr.k = "seq" -> StartSeq(s, fr.rest, fr.env, k)
       [] fr.k = "bodydef" ->      \* internal definition: bound in the call's own frame, visible to the whole body
            LET s1 == [s EXCEPT !.frames[fr.env].vars = Bind(@, fr.x, v)]
            IN StartBody(s1, fr.defs, fr.body, fr.env, k)
       [] fr.k = "set" ->
            LET f == DefiningFrame(s.frames, fr.env, fr.x) IN
            IF Broken = "set-defines" /\ f # fr.env /\ f # 0
            THEN [s EXCEPT !.frames[fr.env].vars = Bind(@, fr.x, v), !.ctrl = Ret(Unspec), !.kont = k]
            ELSE
            IF f # 0 THEN [s EXCEPT !.frames[f].vars[fr.x] = v, !.ctrl = Ret(Unspec), !.kont = k]
            ELSE IF fr.x \in PrimNames     \* a (scheme base) name is a binding of the top-level environment
                 THEN [s EXCEPT !.frames[GlobalFrame].vars = Bind(@, fr.x, v), !.ctrl = Ret(Unspec), !.kont = k]
            ELSE Fail(s, "Unbound")
       [] fr.k = "topdef" ->
            [s EXCEPT !.frames[fr.env].vars = Bind(@, fr.x, v), !.status = "done", !.result = [k |-> "none"],
                      !.ctrl = Ret(Unspec), !.kont = <<>>]
       [] fr.k = "let" ->
            LET done == Append(fr.done, v) IN
            IF fr.i < Len(fr.bs)
            THEN [s EXCEPT !.ctrl = Ev(fr.bs[fr.i + 1].e, fr.env),          \* initialisers see the outer scope only
                           !.kont = Push([fr EXCEPT !.i = @ + 1, !.done = done], k)]
            ELSE LET vars == [x \in {fr.bs[i].x : i \in DOMAIN fr.bs} |->
                                 done[CHOOSE i \in DOMAIN fr.bs : fr.bs[i].x = x]]
                     n == NewFrame([s EXCEPT !.kont = k, !.ctrl = Ap(Unspec, done)], fr.env, vars)
                 IN StartBody(n.st, fr.defs, fr.body, n.fid, k)
       [] fr.k = "letstar" ->
            LET n == NewFrame([s EXCEPT !.kont = k], fr.env, Bind(EmptyVars, fr.bs[fr.i].x, v)) IN
            IF fr.i < Len(fr.bs)
            THEN [n.st EXCEPT !.ctrl = Ev(fr.bs[fr.i + 1].e, n.fid),           \* each initialiser sees the earlier variables
                              !.kont = Push([fr EXCEPT !.i = @ + 1, !.env = n.fid], k)]
            ELSE StartBody(n.st, fr.defs, fr.body, n.fid, k)
       [] fr.k = "cond" ->
            IF ~Truthy(v) THEN EvalCond(s, fr.rest, fr.els, fr.env, k)
            ELSE IF fr.cl.arrow
                 THEN [s EXCEPT !.ctrl = Ev(fr.cl.es[1], fr.env), !.kont = Push([k |-> "arrow", v |-> v], k)]
            ELSE IF fr.cl.es = <<>> THEN [s EXCEPT !.ctrl = Ret(v), !.kont = k]
            ELSE StartSeq(s, fr.cl.es, fr.env, k)
       [] fr.k = "arrow" -> [s EXCEPT !.ctrl = Ap(v, <<fr.v>>), !.kont = k]       \* receiver called in tail position
       [] fr.k = "case" ->
            LET i == CaseSelect(v, fr.cls) IN
            IF i = 0 THEN (IF fr.els = <<>> THEN [s EXCEPT !.ctrl = Ret(Unspec), !.kont = k]
                           ELSE IF fr.els[1].arrow
                                THEN [s EXCEPT !.ctrl = Ev(fr.els[1].es[1], fr.env), !.kont = Push([k |-> "arrow", v |-> v], k)]
                                ELSE StartSeq(s, fr.els[1].es, fr.env, k))
            ELSE IF fr.cls[i].arrow
                 THEN [s EXCEPT !.ctrl = Ev(fr.cls[i].es[1], fr.env), !.kont = Push([k |-> "arrow", v |-> v], k)]
            ELSE StartSeq(s, fr.cls[i].es, fr.env, k)
       [] fr.k = "and" ->
            IF ~Truthy(v) THEN [s EXCEPT !.ctrl = Ret(v), !.kont = k]
            ELSE IF Len(fr.rest) = 1 THEN [s EXCEPT !.ctrl = Ev(fr.rest[1], fr.env), !.kont = k]
            ELSE [s EXCEPT !.ctrl = Ev(fr.rest[1], fr.env), !.kont = Push([fr EXCEPT !.rest = Tail(@)], k)]
       [] fr.k = "or" ->
            IF Truthy(v) THEN [s EXCEPT !.ctrl = Ret(v), !.kont = k]
            ELSE IF Len(fr.rest) = 1 THEN [s EXCEPT !.ctrl = Ev(fr.rest[1], fr.env), !.kont = k]
            ELSE [s EXCEPT !.ctrl = Ev(fr.rest[1], fr.env), !.kont = Push([fr EXCEPT !.rest = Tail(@)], k)]
       [] fr.k = "when" ->
            IF Truthy(v) # fr.neg THEN StartSeq(s, fr.es, fr.env, k)
            ELSE [s EXCEPT !.ctrl = Ret(Unspec), !.kont = k]
       [] fr.k = "map" -> NextHof(s, [fr EXCEPT !.done = Append(@, v)], k)
       [] fr.k = "foreach" -> NextHof(s, fr, k)
       [] fr.k \in {"foldl", "foldr"} -> NextHof(s, [fr EXCEPT !.v = v], k)

----------------------------------------------------------------------------
Step(s) == CASE s.ctrl.m = "eval" -> EvalStep(s)
             [] s.ctrl.m = "ret" -> ReturnStep(s)
             [] s.ctrl.m = "apply" -> ApplyStep(s)

\* a definition or expression evaluated at the top of frame fr (the program's global frame, or a library's root frame)
SubmitIn(s, form, fr) ==
  IF form.t = "define"
  THEN [s EXCEPT !.ctrl = Ev(form.e, fr), !.kont = <<[k |-> "topdef", x |-> form.x, env |-> fr]>>,
                 !.out = <<>>, !.status = "run", !.result = [k |-> "none"]]
  ELSE [s EXCEPT !.ctrl = Ev(form, fr), !.kont = <<>>, !.out = <<>>, !.status = "run",
                 !.result = [k |-> "none"]]
\* hand one top-level form to the machine; the store (frames, vecs) is whatever earlier forms left
Submit(s, form) ==
  IF form.t = "defsyntax"
  THEN [s EXCEPT !.syn = Bind(@, form.kw, form.k), !.ctrl = Ret(Unspec), !.kont = <<>>, !.out = <<>>,
                 !.status = "done", !.result = [k |-> "none"]]
  ELSE SubmitIn(s, form, GlobalFrame)
=============================================================================
