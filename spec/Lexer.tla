-------------------------------- MODULE Lexer --------------------------------
(***************************************************************************)
(* The lexical grammar of R7RS (7.1.1) restricted to what Ruschm supports, *)
(* stated as "split the text at delimiters; every piece between two        *)
(* delimiters is exactly one token or an error" - not as the per-class     *)
(* scanners of lexer.rs.  A text is a sequence of code points.             *)
(*                                                                         *)
(* Lex(text) = [k |-> "tokens", toks |-> <<token...>>]                     *)
(*           | [k |-> "error"]         (a syntax error is the only acceptable outcome) *)
(*             (when the text ends inside a string or |identifier| the record also has  *)
(*              open |-> TRUE and toks |-> the tokens before it)                        *)
(*           | [k |-> "unsupported"]   (spelling outside the supported grammar: only    *)
(*                                      "no crash" is demanded, C07)                    *)
(* tokens: [t |-> "lp"] "rp" "vecopen" "quote" "dot"                       *)
(*         [t |-> "ident", cs] [t |-> "bool", b] [t |-> "char", c] [t |-> "str", cs] *)
(*         [t |-> "int", digits, neg] [t |-> "rat", num, den, neg] [t |-> "real", cs] *)
(* Numbers are kept as digit sequences here; Reader.tla gives them values. *)
(***************************************************************************)
EXTENDS Naturals, Integers, Sequences

SP == 32   TAB == 9   LF == 10   CR == 13
LPAREN == 40   RPAREN == 41   DQUOTE == 34   SEMI == 59   BAR == 124
QUOTE == 39   HASH == 35   DOT == 46   PLUS == 43   MINUS == 45   SLASH == 47   BSLASH == 92
BACKQ == 96   COMMA == 44   AT == 64

IsWhite(c) == c \in {SP, TAB, LF, CR}
IsDelimiter(c) == IsWhite(c) \/ c \in {LPAREN, RPAREN, DQUOTE, SEMI, BAR}
IsDigit(c) == c >= 48 /\ c <= 57
IsLetter(c) == (c >= 97 /\ c <= 122) \/ (c >= 65 /\ c <= 90)
\* ! $ % & * / : < = > ? ^ _ ~
IsSpecialInitial(c) == c \in {33, 36, 37, 38, 42, 47, 58, 60, 61, 62, 63, 94, 95, 126}
IsInitial(c) == IsLetter(c) \/ IsSpecialInitial(c)
IsSubsequent(c) == IsInitial(c) \/ IsDigit(c) \/ c \in {PLUS, MINUS, DOT, AT}
IsSignSubsequent(c) == IsInitial(c) \/ c \in {PLUS, MINUS, AT}
IsDotSubsequent(c) == IsSignSubsequent(c) \/ c = DOT
IsAscii(c) == c >= 32 /\ c < 127

All(s, P(_)) == \A i \in DOMAIN s : P(s[i])
Rest(s, i) == SubSeq(s, i, Len(s))       \* from position i

\* ---- classification of one chunk (a maximal run of non-delimiter characters not starting with ' or #)
IsUInt(s) == s # <<>> /\ All(s, IsDigit)
SignLen(s) == IF s # <<>> /\ s[1] \in {PLUS, MINUS} THEN 1 ELSE 0
Unsigned(s) == Rest(s, SignLen(s) + 1)
IsNeg(s) == s # <<>> /\ s[1] = MINUS
IndexOf(s, c) == IF \E i \in DOMAIN s : s[i] = c THEN CHOOSE i \in DOMAIN s : s[i] = c /\ \A j \in 1..(i - 1) : s[j] # c ELSE 0

IsInteger(s) == IsUInt(Unsigned(s))
IsRatio(s) == LET u == Unsigned(s) i == IndexOf(u, SLASH) IN
              i > 1 /\ IsUInt(SubSeq(u, 1, i - 1)) /\ IsUInt(Rest(u, i + 1))
\* decimal: digits+ . digits* [e[sign]digits+] | . digits+ [exp] | digits+ e [sign] digits+
IsExponent(s) == s # <<>> /\ s[1] = 101 /\ IsUInt(Unsigned(Rest(s, 2)))       \* e[+-]?d+
SplitExp(u) == LET i == IndexOf(u, 101) IN IF i = 0 THEN <<u, <<>>>> ELSE <<SubSeq(u, 1, i - 1), Rest(u, i)>>
IsDecimal(s) ==
  LET u == Unsigned(s)
      me == SplitExp(u)
      m == me[1]
      e == me[2]
      d == IndexOf(m, DOT)
  IN /\ (e = <<>> \/ IsExponent(e))
     /\ IF d = 0 THEN IsUInt(m) /\ e # <<>>                                       \* 1e3
        ELSE LET ip == SubSeq(m, 1, d - 1) fp == Rest(m, d + 1) IN
             /\ (ip = <<>> \/ IsUInt(ip)) /\ (fp = <<>> \/ IsUInt(fp))
             /\ (ip # <<>> \/ fp # <<>>)                                          \* "." alone is not a number
\* a decimal without digits before the point (.5, -.5e1): valid R7RS, not implemented by Ruschm's lexer
IsLeadingDotDecimal(s) == IsDecimal(s) /\ LET u == Unsigned(s) IN u # <<>> /\ u[1] = DOT
IsOrdinaryIdent(s) == s # <<>> /\ IsInitial(s[1]) /\ All(s, IsSubsequent)
IsPeculiarIdent(s) ==
  \/ s = <<PLUS>> \/ s = <<MINUS>>
  \/ (Len(s) >= 2 /\ s[1] \in {PLUS, MINUS} /\ IsSignSubsequent(s[2]) /\ All(Rest(s, 3), IsSubsequent))
  \/ (Len(s) >= 3 /\ s[1] \in {PLUS, MINUS} /\ s[2] = DOT /\ IsDotSubsequent(s[3]) /\ All(Rest(s, 4), IsSubsequent))
  \/ (Len(s) >= 2 /\ s[1] = DOT /\ IsDotSubsequent(s[2]) /\ All(Rest(s, 3), IsSubsequent))
\* peculiar identifiers beginning with a sign and a dot (+.a, -..): valid R7RS, rejected by Ruschm's lexer
IsSignDotIdent(s) == IsPeculiarIdent(s) /\ Len(s) >= 3 /\ s[1] \in {PLUS, MINUS} /\ s[2] = DOT

Classify(s) ==
  IF ~All(s, IsAscii) THEN [k |-> "unsupported"]
  ELSE IF s = <<DOT>> THEN [k |-> "tok", tok |-> [t |-> "dot"]]
  ELSE IF IsInteger(s) THEN [k |-> "tok", tok |-> [t |-> "int", neg |-> IsNeg(s), digits |-> Unsigned(s)]]
  ELSE IF IsRatio(s) THEN
       LET u == Unsigned(s) i == IndexOf(u, SLASH) IN
       [k |-> "tok", tok |-> [t |-> "rat", neg |-> IsNeg(s), num |-> SubSeq(u, 1, i - 1), den |-> Rest(u, i + 1)]]
  ELSE IF IsLeadingDotDecimal(s) THEN [k |-> "unsupported"]
  ELSE IF IsDecimal(s) THEN [k |-> "tok", tok |-> [t |-> "real", cs |-> s]]
  ELSE IF IsSignDotIdent(s) THEN [k |-> "unsupported"]
  ELSE IF IsOrdinaryIdent(s) \/ IsPeculiarIdent(s) THEN [k |-> "tok", tok |-> [t |-> "ident", cs |-> s]]
  ELSE [k |-> "error"]

\* ---- strings and |identifiers|
EscapeValue(c) == CASE c = 97 -> 7 [] c = 98 -> 8 [] c = 116 -> 9 [] c = 110 -> 10 [] c = 114 -> 13
                    [] c = DQUOTE -> DQUOTE [] c = BSLASH -> BSLASH [] c = BAR -> BAR [] OTHER -> 0 - 1
\* scan a string body starting after the opening quote: [k, cs, next] ; k \in {"ok", "error", "unsupported"}
RECURSIVE ScanString(_, _, _)
ScanString(text, i, acc) ==
  IF i > Len(text) THEN [k |-> "error", open |-> TRUE]                    \* unterminated
  ELSE IF text[i] = DQUOTE THEN [k |-> "ok", cs |-> acc, next |-> i + 1]
  ELSE IF text[i] = BSLASH THEN
       (IF i + 1 > Len(text) THEN [k |-> "error", open |-> TRUE]
        ELSE IF text[i + 1] = 120 \/ IsWhite(text[i + 1]) THEN [k |-> "unsupported"]      \* \x41; and line continuations
        ELSE IF EscapeValue(text[i + 1]) < 0 THEN [k |-> "error"]
        ELSE ScanString(text, i + 2, Append(acc, EscapeValue(text[i + 1]))))
  ELSE ScanString(text, i + 1, Append(acc, text[i]))
RECURSIVE ScanBar(_, _, _)
ScanBar(text, i, acc) ==
  IF i > Len(text) THEN [k |-> "error"]
  ELSE IF text[i] = BAR THEN [k |-> "ok", cs |-> acc, next |-> i + 1]
  ELSE IF text[i] = BSLASH THEN [k |-> "unsupported"]                     \* escapes inside |...|
  ELSE ScanBar(text, i + 1, Append(acc, text[i]))

RECURSIVE ChunkEnd(_, _)
ChunkEnd(text, i) == IF i > Len(text) \/ IsDelimiter(text[i]) THEN i ELSE ChunkEnd(text, i + 1)   \* first position after the chunk
RECURSIVE LineEnd(_, _)
LineEnd(text, i) == IF i > Len(text) \/ text[i] \in {LF, CR} THEN i ELSE LineEnd(text, i + 1)

\* ---- the tokenizer
RECURSIVE LexFrom(_, _, _)
LexFrom(text, i, acc) ==
  IF i > Len(text) THEN [k |-> "tokens", toks |-> acc]
  ELSE LET c == text[i] IN
  IF IsWhite(c) THEN LexFrom(text, i + 1, acc)
  ELSE IF c = SEMI THEN LexFrom(text, LineEnd(text, i), acc)
  ELSE IF c = LPAREN THEN LexFrom(text, i + 1, Append(acc, [t |-> "lp"]))
  ELSE IF c = RPAREN THEN LexFrom(text, i + 1, Append(acc, [t |-> "rp"]))
  ELSE IF c = QUOTE THEN LexFrom(text, i + 1, Append(acc, [t |-> "quote"]))
  ELSE IF c \in {BACKQ, COMMA} THEN [k |-> "unsupported"]                  \* quasiquotation
  ELSE IF c = DQUOTE THEN
       LET r == ScanString(text, i + 1, <<>>) IN
       IF r.k = "error" /\ "open" \in DOMAIN r THEN [k |-> "error", open |-> TRUE, toks |-> acc]     \* the text ends inside the string
       ELSE IF r.k # "ok" THEN [k |-> r.k] ELSE LexFrom(text, r.next, Append(acc, [t |-> "str", cs |-> r.cs]))
  ELSE IF c = BAR THEN
       LET r == ScanBar(text, i + 1, <<>>) IN
       IF r.k = "error" THEN [k |-> "error", open |-> TRUE, toks |-> acc]                                \* the text ends inside |...|
       ELSE IF r.k # "ok" THEN [k |-> r.k] ELSE LexFrom(text, r.next, Append(acc, [t |-> "ident", cs |-> r.cs]))
  ELSE IF c = HASH THEN
       (IF i + 1 > Len(text) THEN [k |-> "error"]
        ELSE IF text[i + 1] = LPAREN THEN LexFrom(text, i + 2, Append(acc, [t |-> "vecopen"]))
        ELSE IF text[i + 1] = BSLASH THEN
             \* #\c : any single character, then a delimiter; longer spellings are character names (#\space, #\x41)
             (IF i + 2 > Len(text) THEN [k |-> "error"]
              ELSE LET e == ChunkEnd(text, i + 3) IN
                   IF e = i + 3 THEN LexFrom(text, e, Append(acc, [t |-> "char", c |-> text[i + 2]]))
                   ELSE [k |-> "unsupported"])
        ELSE LET e == ChunkEnd(text, i) chunk == SubSeq(text, i, e - 1) IN
             IF chunk = <<HASH, 116>> THEN LexFrom(text, e, Append(acc, [t |-> "bool", b |-> TRUE]))
             ELSE IF chunk = <<HASH, 102>> THEN LexFrom(text, e, Append(acc, [t |-> "bool", b |-> FALSE]))
             ELSE IF chunk \in {<<HASH, 116, 114, 117, 101>>, <<HASH, 102, 97, 108, 115, 101>>} THEN [k |-> "unsupported"]   \* #true #false
             ELSE IF Len(chunk) >= 2 /\ chunk[2] \in {116, 102} THEN [k |-> "error"]       \* #tx, #t#f: one piece, not a boolean and more
             ELSE IF Len(chunk) >= 2 /\ chunk[2] \in {117, 120, 100, 111, 98, 101, 105, 59, 33}
                  THEN [k |-> "unsupported"]        \* #u8( #x.. #d.. #o.. #b.. #e.. #i.. #; #!fold-case
             ELSE [k |-> "error"])
  ELSE LET e == ChunkEnd(text, i)
           r == Classify(SubSeq(text, i, e - 1))
       IN IF r.k = "tok" THEN LexFrom(text, e, Append(acc, r.tok)) ELSE [k |-> r.k]

Lex(text) == LexFrom(text, 1, <<>>)
=============================================================================
