---------------------------------- MODULE Cli ----------------------------------
(***************************************************************************)
(* The command-line driver `ruschm FILE` (C17) as a function from the      *)
(* per-form outcomes of the program to the three process observables.      *)
(*   forms: <<[k |-> "value"|"none"|"error", shown |-> text, msg |-> text, located |-> BOOLEAN] ...>> *)
(*          the outcome of each form evaluated in order through the library interface, up to and including the *)
(*          first failing one; shown = what the form displayed                                                 *)
(* Expected: standard output = everything displayed before the failure; exit status 0 iff nothing failed;      *)
(* standard error empty on success, else exactly one line  FILE[:LINE:COL] MESSAGE.                            *)
(***************************************************************************)
EXTENDS Naturals, Sequences

RECURSIVE Concat(_, _)
Concat(forms, i) == IF i > Len(forms) THEN <<>> ELSE forms[i].shown \o Concat(forms, i + 1)
ExpectedStdout(forms) == Concat(forms, 1)
Failed(forms) == forms # <<>> /\ forms[Len(forms)].k = "error"
WellFormedRun(forms) == \A i \in 1..(Len(forms) - 1) : forms[i].k # "error"     \* evaluation stops at the first failure

IsDigit(c) == c >= 48 /\ c <= 57
\* ":LINE:COL" followed by blanks
IsLocation(mid) ==
  /\ Len(mid) >= 5 /\ mid[1] = 58
  /\ \E j \in 3..(Len(mid) - 2) :
        /\ mid[j] = 58
        /\ \A x \in 2..(j - 1) : IsDigit(mid[x])
        /\ \E e \in (j + 1)..(Len(mid) - 1) : (\A x \in (j + 1)..e : IsDigit(mid[x])) /\ (\A x \in (e + 1)..Len(mid) : mid[x] = 32)
IsBlank(mid) == mid # <<>> /\ \A x \in DOMAIN mid : mid[x] = 32
\* one diagnostic line for FILE with MESSAGE (the line terminator already removed)
IsDiagnostic(line, file, msg, located) ==
  /\ Len(line) >= Len(file) + Len(msg) + 1
  /\ SubSeq(line, 1, Len(file)) = file
  /\ SubSeq(line, Len(line) - Len(msg) + 1, Len(line)) = msg
  /\ LET mid == SubSeq(line, Len(file) + 1, Len(line) - Len(msg)) IN
       IsLocation(mid) \/ (~located /\ IsBlank(mid))

\* stderr given as a sequence of lines
CliVerdict(forms, file, stdout, stderrLines, exit) ==
  /\ WellFormedRun(forms)
  /\ stdout = ExpectedStdout(forms)
  /\ IF Failed(forms)
     THEN /\ exit # 0
          /\ Len(stderrLines) = 1
          /\ IsDiagnostic(stderrLines[1], file, forms[Len(forms)].msg, forms[Len(forms)].located)
     ELSE exit = 0 /\ stderrLines = <<>>
=============================================================================
