CONSTANT MaxLen = 5
INIT Init
NEXT Next
INVARIANT Total
CHECK_DEADLOCK FALSE
