CONSTANTS
  GC = FALSE
  Broken = "none"
  Family = "derived-quick"
  MaxKont = 12
SPECIFICATION Spec
INVARIANT TickOnce
INVARIANT NoError
INVARIANT KontBounded
INVARIANT SingleLaw
INVARIANT Emit
CHECK_DEADLOCK FALSE
