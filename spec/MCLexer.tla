------------------------------ MODULE MCLexer ------------------------------
(* C06, layout invariance on the specification: for every pair of token spellings of a
   class-covering vocabulary and every separator, the text lexes to the two tokens; with no
   separator it lexes to the two tokens exactly when the boundary is a delimiter - never a split
   inside a run of non-delimiter characters.  Every text is printed for replay. *)
EXTENDS Lexer, Json, TLC

\* the vocabulary (as code points):
\*    1  a
\*    2  abc
\*    3  +
\*    4  -
\*    5  ...
\*    6  ->x
\*    7  a.b
\*    8  x1
\*    9  !$%&*/:<=>?^_~
\*   10  |a b|
\*   11  ||
\*   12  #t
\*   13  #f
\*   14  #\a
\*   15  #\(
\*   16  #\;
\*   17  "s"
\*   18  ""
\*   19  "a\"b"
\*   20  "(;"
\*   21  0
\*   22  12
\*   23  -7
\*   24  +5
\*   25  1/2
\*   26  -3/4
\*   27  1.5
\*   28  -0.25
\*   29  1e3
\*   30  1.5e-3
\*   31  2.
\*   32  (
\*   33  )
\*   34  #(
\*   35  '
\*   36  .
Vocab == <<
  <<97>>,
  <<97, 98, 99>>,
  <<43>>,
  <<45>>,
  <<46, 46, 46>>,
  <<45, 62, 120>>,
  <<97, 46, 98>>,
  <<120, 49>>,
  <<33, 36, 37, 38, 42, 47, 58, 60, 61, 62, 63, 94, 95, 126>>,
  <<124, 97, 32, 98, 124>>,
  <<124, 124>>,
  <<35, 116>>,
  <<35, 102>>,
  <<35, 92, 97>>,
  <<35, 92, 40>>,
  <<35, 92, 59>>,
  <<34, 115, 34>>,
  <<34, 34>>,
  <<34, 97, 92, 34, 98, 34>>,
  <<34, 40, 59, 34>>,
  <<48>>,
  <<49, 50>>,
  <<45, 55>>,
  <<43, 53>>,
  <<49, 47, 50>>,
  <<45, 51, 47, 52>>,
  <<49, 46, 53>>,
  <<45, 48, 46, 50, 53>>,
  <<49, 101, 51>>,
  <<49, 46, 53, 101, 45, 51>>,
  <<50, 46>>,
  <<40>>,
  <<41>>,
  <<35, 40>>,
  <<39>>,
  <<46>> >>
\* none, blank, tab, CR LF, comment to LF, mixed, bare CR, comment ended by a bare CR (reached after white space / directly)
Seps == << <<>>, <<32>>, <<9>>, <<13, 10>>, <<59, 99, 10>>, <<32, 32, 10, 32>>, <<13>>, <<32, 59, 120, 13, 32>>, <<59, 13>> >>

VARIABLES i, j, s, phase
Init == i \in DOMAIN Vocab /\ j \in DOMAIN Vocab /\ s \in DOMAIN Seps /\ phase = 0
Next == phase = 0 /\ phase' = 1 /\ UNCHANGED <<i, j, s>>
Text == Vocab[i] \o Seps[s] \o Vocab[j]
One(k) == Lex(Vocab[k])
\* the boundary between the two spellings is a delimiter, or the first is a prefix token
SelfDelimiting(k) == Vocab[k][Len(Vocab[k])] \in {LPAREN, RPAREN, DQUOTE, BAR} \/ Vocab[k] \in {<<QUOTE>>, <<HASH, LPAREN>>}
                     \/ (Len(Vocab[k]) = 3 /\ Vocab[k][1] = HASH /\ Vocab[k][2] = BSLASH)     \* #\c is complete after one character
BoundaryIsDelimiter == SelfDelimiting(i) \/ IsDelimiter(Vocab[j][1])
Law == phase = 1 =>
  /\ One(i).k = "tokens" /\ Len(One(i).toks) = 1 /\ One(j).k = "tokens" /\ Len(One(j).toks) = 1
  /\ LET both == [k |-> "tokens", toks |-> One(i).toks \o One(j).toks] IN
     IF s > 1 THEN Lex(Text) = both                               \* any amount and kind of white space / comments
     ELSE (Lex(Text) = both) <=> (BoundaryIsDelimiter /\ ~(Vocab[i][1] = HASH /\ Len(Vocab[i]) = 3 /\ Vocab[i][2] = BSLASH /\ ~IsDelimiter(Vocab[j][1])))
Emit == phase = 1 => PrintT(<<"VEC", ToJson([text |-> Text])>>)
=============================================================================
