------------------------------ MODULE Locations ------------------------------
(***************************************************************************)
(* Source locations (C15).  A location is <<line, column>>, both from 1; a *)
(* reported location is a cursor position: it may stand before the first   *)
(* character of what it points at or just after its last one (the lexer    *)
(* reports the position after a token).  An extent is <<l1, c1, l2, c2>>:  *)
(* first and last character of a piece of text.                            *)
(***************************************************************************)
EXTENDS Reader

LocLE(a, b) == a[1] < b[1] \/ (a[1] = b[1] /\ a[2] <= b[2])
Within(loc, ext) == LocLE(<<ext[1], ext[2]>>, loc) /\ LocLE(loc, <<ext[3], ext[4] + 1>>)

\* index in the text of the character at <<line, col>> (lines end at LF)
RECURSIVE IndexAt(_, _, _, _, _)
IndexAt(text, i, line, l, c) ==      \* i: current index, line: its line; looking for line l
  IF line = l THEN i + c - 1
  ELSE IF i > Len(text) THEN Len(text) + 1
  ELSE IndexAt(text, i + 1, IF text[i] = LF THEN line + 1 ELSE line, l, c)
TextOf(text, ext) == SubSeq(text, IndexAt(text, 1, 1, ext[1], ext[2]), IndexAt(text, 1, 1, ext[3], ext[4]))
\* the piece of text an extent marks is exactly one datum (checks the driver's bookkeeping with the specification's reader)
IsOneDatum(text, ext) == LET L == Lex(TextOf(text, ext)) IN
                           L.k = "tokens" /\ LET R == ReadAll(L.toks) IN R.k = "data" /\ Len(R.ds) = 1
RECURSIVE CountLines(_, _)
CountLines(text, i) == IF i > Len(text) THEN 1 ELSE (IF text[i] = LF THEN 1 ELSE 0) + CountLines(text, i + 1)
RECURSIVE LastLineLen(_, _, _)
LastLineLen(text, i, n) == IF i > Len(text) THEN n ELSE LastLineLen(text, i + 1, IF text[i] = LF THEN 0 ELSE n + 1)
\* not beyond the end of the file
InFile(loc, text) == LET n == CountLines(text, 1) IN
                       loc[1] >= 1 /\ loc[2] >= 1 /\ (loc[1] < n \/ (loc[1] = n /\ loc[2] <= LastLineLen(text, 1, 0) + 1)
                                                      \/ (loc[1] = n + 1 /\ loc[2] = 1))

\* verdict on a reported run-time error
\*   form: extent of the top-level form whose evaluation failed; site: extent of the offending identifier / operator
\*   (<<>> when the fault is not an unbound variable or a non-procedure); loc: the reported location (<<>> = none)
RuntimeVerdict(text, form, site, loc) ==
  /\ loc # <<>>                                   \* every run-time error carries a location
  /\ InFile(loc, text)
  /\ Within(loc, form)
  /\ (site # <<>> => Within(loc, site))
=============================================================================
