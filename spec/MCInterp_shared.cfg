CONSTANTS
  GC = FALSE
  Broken = "none"
  MaxLen = 2
  SharedSyntax = TRUE
SPECIFICATION Spec
INVARIANT Isolated
INVARIANT IsolatedPrefix
CHECK_DEADLOCK FALSE
