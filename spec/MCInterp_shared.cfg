CONSTANTS
  GC = FALSE
  Broken = "none"
  MaxLen = 2
  Family = "syntax"
  SharedFiles = FALSE
  SharedSyntax = TRUE
SPECIFICATION Spec
INVARIANT Isolated
INVARIANT IsolatedPrefix
CHECK_DEADLOCK FALSE
