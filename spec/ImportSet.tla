---------------------------- MODULE ImportSet ----------------------------
(***************************************************************************)
(* R7RS 5.2 import-set algebra.  A *binding set* is a set of pairs         *)
(* <<external name, origin>> where origin is the name under which the      *)
(* library exports the value.  Written from R7RS, not from                 *)
(* Interpreter::eval_import_set.                                           *)
(*                                                                         *)
(* Terms:  [t |-> "lib"]                                                   *)
(*         [t |-> "only",   s |-> term, ids |-> <<name...>>]               *)
(*         [t |-> "except", s |-> term, ids |-> <<name...>>]               *)
(*         [t |-> "prefix", s |-> term, p |-> name]                        *)
(*         [t |-> "rename", s |-> term, pairs |-> << <<from,to>> ... >>]   *)
(***************************************************************************)
EXTENDS Naturals, Sequences, FiniteSets, SequencesExt, FiniteSetsExt, TLC, Json

CONSTANT Exports      \* set of names the library exports

Rng(s) == {s[i] : i \in DOMAIN s}
Names(B) == {b[1] : b \in B}

Base == {<<e, e>> : e \in Exports}

RenameOf(pairs, n) ==
  IF \E i \in DOMAIN pairs : pairs[i][1] = n
  THEN LET i == CHOOSE i \in DOMAIN pairs : pairs[i][1] = n IN pairs[i][2]
  ELSE n

RECURSIVE Apply(_)
Apply(term) ==
  CASE term.t = "lib"    -> Base
    [] term.t = "only"   -> {b \in Apply(term.s) : b[1] \in Rng(term.ids)}
    [] term.t = "except" -> {b \in Apply(term.s) : b[1] \notin Rng(term.ids)}
    [] term.t = "prefix" -> {<<term.p \o b[1], b[2]>> : b \in Apply(term.s)}
    [] term.t = "rename" -> {<<RenameOf(term.pairs, b[1]), b[2]>> : b \in Apply(term.s)}

\* every name bound once
Functional(B) == \A x, y \in B : x[1] = y[1] => x[2] = y[2]

\* R7RS: "it is an error if any of the listed identifiers are not found in the original set";
\* a rename must mention each identifier once and must not make two bindings collide.
RECURSIVE Admissible(_)
Admissible(term) ==
  CASE term.t = "lib" -> TRUE
    [] term.t \in {"only", "except"} ->
         /\ Admissible(term.s)
         /\ Rng(term.ids) \subseteq Names(Apply(term.s))
         /\ \A i, j \in DOMAIN term.ids : i # j => term.ids[i] # term.ids[j]
    [] term.t = "prefix" -> Admissible(term.s)
    [] term.t = "rename" ->
         /\ Admissible(term.s)
         /\ \A i \in DOMAIN term.pairs : term.pairs[i][1] \in Names(Apply(term.s))
         /\ \A i, j \in DOMAIN term.pairs : i # j => term.pairs[i][1] # term.pairs[j][1]
         /\ Functional(Apply(term))
         /\ Cardinality(Names(Apply(term))) = Cardinality(Names(Apply(term.s)))

\* the same, except that identifiers listed by only/except/rename need not be found in the set: R7RS calls that an
\* error, Ruschm ignores such identifiers; either is accepted, but an identifier that is NOT in the set is never bound
\* through being listed (Apply filters and renames what is there, nothing else)
RECURSIVE AdmissibleButForStrays(_)
AdmissibleButForStrays(term) ==
  CASE term.t = "lib" -> TRUE
    [] term.t \in {"only", "except"} ->
         /\ AdmissibleButForStrays(term.s)
         /\ \A i, j \in DOMAIN term.ids : i # j => term.ids[i] # term.ids[j]
    [] term.t = "prefix" -> AdmissibleButForStrays(term.s)
    [] term.t = "rename" ->
         /\ AdmissibleButForStrays(term.s)
         /\ \A i, j \in DOMAIN term.pairs : i # j => term.pairs[i][1] # term.pairs[j][1]
         /\ Functional(Apply(term))
         /\ Cardinality(Names(Apply(term))) = Cardinality(Names(Apply(term.s)))

\* a declaration (import s1 s2 ...) binds the union
ApplyDecl(sets) == UNION {Apply(sets[i]) : i \in DOMAIN sets}
AdmissibleDecl(sets) == (\A i \in DOMAIN sets : Admissible(sets[i])) /\ Functional(ApplyDecl(sets))
AdmissibleDeclButForStrays(sets) == (\A i \in DOMAIN sets : AdmissibleButForStrays(sets[i])) /\ Functional(ApplyDecl(sets))

=============================================================================
