CONSTANTS
  GC = TRUE
  Broken = "nontail-if"
  Family = "tail-inf-1"
  MaxKont = 4
SPECIFICATION Spec
INVARIANT KontBounded
CHECK_DEADLOCK FALSE
