CONSTANTS
  Exports = {"a", "b", "c", "d"}
SPECIFICATION Spec
INVARIANT Done
CHECK_DEADLOCK FALSE
