---------------------------- MODULE MachineTrace ----------------------------
(***************************************************************************)
(* Trace validation against the reference evaluator.  Recorded events      *)
(* (one ndjson line each, file named by the environment variable TRACE):   *)
(*   {"ev":"reset"}                        a fresh interpreter              *)
(*   {"ev":"form","ast":F,"obs":O,"ticks":[..],"ids":[..]}                  *)
(*        the top-level form F was evaluated; the implementation returned  *)
(*        outcome O, the host procedure tick! logged `ticks` meanwhile,    *)
(*        `ids` is the alias structure of the vectors in the result        *)
(* For each form the machine takes its own steps (silently) until it is    *)
(* done, then outcome, ticks and alias structure are compared.  After a    *)
(* mismatch the rest of that program is skipped (resynchronise at reset),  *)
(* so one run reports every disagreeing program.                           *)
(***************************************************************************)
EXTENDS Machine, Json, IOUtils

CONSTANT MaxSteps        \* per form; a machine that needs more is reported, never silently accepted

Rec == ndJsonDeserialize(IOEnv.TRACE)

VARIABLES m, l, phase, skip, steps, bad
tvars == <<m, l, phase, skip, steps, bad>>

TInit == m = InitState /\ l = 1 /\ phase = "idle" /\ skip = FALSE /\ steps = 0 /\ bad = 0

IsEvent(e) == l <= Len(Rec) /\ Rec[l].ev = e

KindOK(spec, obs) ==
  \/ spec = obs
  \/ spec = "WrongType" /\ obs = "NonProcedure"      \* soundness rule 4: the Type named in TypeMisMatch is not compared
  \/ spec = "ImmutableVector|IndexRange" /\ obs \in {"ImmutableVector", "IndexRange"}   \* two simultaneous faults: either one

\* anykind: the recording check declares that WHICH error is raised is not part of the property it validates
\* (C11: "raise an error rather than return a value"); the classification of errors is C08's claim
OutcomeOK(r, o, anykind) ==
  CASE r.k = "none"  -> o.k = "none"
    [] r.k = "value" -> o.k = "value" /\ Match(r.v, o.v)
    [] r.k = "error" -> o.k = "error" /\ (anykind \/ KindOK(r.kind, o.kind))

TicksOK(out, ticks) ==
  /\ Len(out) = Len(ticks)
  /\ \A i \in DOMAIN out : Match(out[i], ticks[i])

\* same partition of positions into alias classes
AliasOK(specIds, obsIds) ==
  /\ Len(specIds) = Len(obsIds)
  /\ \A i, j \in DOMAIN specIds : (specIds[i] = specIds[j]) <=> (obsIds[i] = obsIds[j])

Reset ==
  /\ IsEvent("reset") /\ phase = "idle"
  /\ m' = InitState /\ skip' = FALSE /\ l' = l + 1 /\ steps' = 0
  /\ UNCHANGED <<phase, bad>>

Skip ==
  /\ IsEvent("form") /\ phase = "idle" /\ skip
  /\ l' = l + 1 /\ UNCHANGED <<m, phase, skip, steps, bad>>

Start ==
  /\ IsEvent("form") /\ phase = "idle" /\ ~skip
  /\ m' = Submit(m, Rec[l].ast) /\ phase' = "run" /\ steps' = 0
  /\ UNCHANGED <<l, skip, bad>>

Silent ==
  /\ phase = "run" /\ m.status = "run" /\ steps < MaxSteps
  /\ m' = Step(m) /\ steps' = steps + 1
  /\ UNCHANGED <<l, phase, skip, bad>>

Report(why, e) ==
  PrintT(<<"MISMATCH", ToJson([event |-> l, why |-> why, expected |-> m.result, expectedTicks |-> m.out,
                               observed |-> e.obs, observedTicks |-> e.ticks])>>)

Compare ==
  /\ phase = "run" /\ (m.status = "done" \/ steps >= MaxSteps)
  /\ LET e == Rec[l]
         specIds == IF m.status = "done" /\ m.result.k = "value" /\ m.ctrl.m = "ret" THEN VecIds(m.ctrl.v, m.vecs) ELSE <<>>
         why == IF m.status # "done" THEN "specification did not finish within MaxSteps"
                ELSE IF ~OutcomeOK(m.result, e.obs, e.anykind) THEN "outcome"
                ELSE IF ~TicksOK(m.out, e.ticks) THEN "ticks"
                ELSE IF m.result.k = "value" /\ ~AliasOK(specIds, e.ids) THEN "alias"
                ELSE "ok"
     IN IF why = "ok" THEN bad' = bad /\ skip' = skip
        ELSE Report(why, e) /\ bad' = bad + 1 /\ skip' = TRUE
  /\ l' = l + 1 /\ phase' = "idle"
  /\ UNCHANGED <<m, steps>>

TNext == Reset \/ Skip \/ Start \/ Silent \/ Compare
TSpec == TInit /\ [][TNext]_tvars

TDone == (l = Len(Rec) + 1) => PrintT(<<"DONE", ToJson([events |-> Len(Rec), bad |-> bad])>>)
=============================================================================
