CONSTANTS
  MaxOps = 2
  Broken = "none"
INIT Init
NEXT Next
INVARIANT Laws
INVARIANT Emit
CHECK_DEADLOCK FALSE
