INIT Init
NEXT Next
INVARIANT Laws
INVARIANT Emit
CHECK_DEADLOCK FALSE
