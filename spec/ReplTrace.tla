------------------------------ MODULE ReplTrace ------------------------------
(* Trace validation for C18.  Two kinds of events:
   {"ev":"closed","text":[cp...],"closed":BOOLEAN}
        the verdict of the REPL's own completeness test (hook H1) for a text
   {"ev":"session","lines":[[cp...]...],"forms":[[cp...]...],"expected":[{"ch":"out"|"err","cs":[cp...]}...],
    "stdout":[[cp...]...],"stderr":[[cp...]...]}
        the lines fed to the binary over a pipe, the texts of the forms they were made from (one submission each),
        the transcript entries obtained by evaluating those forms one after another through the library interface,
        and what the binary wrote. *)
EXTENDS Repl, Json, IOUtils, TLC

Rec == ndJsonDeserialize(IOEnv.TRACE)

ClosedVerdict(e) == Constrained(e.text) => (e.closed = Closed(e.text))

Select(exp, ch) == LET s == SelectSeq(exp, LAMBDA x : x.ch = ch) IN [i \in DOMAIN s |-> s[i].cs]
SessionWhy(e) ==
  LET st == ReplRun(ReplInit, e.lines, 1) IN
  IF ~st.ok THEN "generator: a line break fell where the text does not lex (outside the claim)"
  ELSE IF st.pending # <<>> THEN "generator: the session ends inside an unfinished form"
  ELSE IF Len(st.subs) # Len(e.forms) THEN "generator: the specification submits a different number of texts than forms were given"
  ELSE IF \E i \in DOMAIN e.forms : Lex(st.subs[i]) # Lex(e.forms[i]) THEN "generator: a submission does not consist of the tokens of its form"
  ELSE IF e.stdout # Select(e.expected, "out") THEN "standard output differs from evaluating the forms in sequence"
  ELSE IF e.stderr # Select(e.expected, "err") THEN "error messages differ from evaluating the forms in sequence"
  ELSE "ok"

VARIABLES l, bad
Init == l = 1 /\ bad = 0
Next == /\ l <= Len(Rec)
        /\ LET e == Rec[l]
               w == IF e.ev = "closed" THEN (IF ClosedVerdict(e) THEN "ok" ELSE "completeness test") ELSE SessionWhy(e)
           IN IF w = "ok" THEN bad' = bad
              ELSE PrintT(<<"MISMATCH", ToJson([event |-> l, why |-> w])>>) /\ bad' = bad + 1
        /\ l' = l + 1
Done == l = Len(Rec) + 1 => PrintT(<<"DONE", ToJson([events |-> Len(Rec), bad |-> bad])>>)
=============================================================================
