INIT Init
NEXT Next
INVARIANT SplitLaw
CHECK_DEADLOCK FALSE
