CONSTANTS
  GC = FALSE
  Broken = "none"
  Family = "lists-quick"
  MaxKont = 16
SPECIFICATION Spec
INVARIANT ListLaw
INVARIANT KontBounded
INVARIANT Emit
CHECK_DEADLOCK FALSE
