------------------------------- MODULE MCTotal -------------------------------
(* C07 on the specification: the reader pipeline (Lexer, Reader) is total - for every string up to
   MaxLen over the alphabet it yields tokens+data, an error, or "unsupported"; it never gets stuck.
   (TLC evaluates the pipeline on every string; an undefined case would stop it with an error.) *)
EXTENDS Reader, TLC
CONSTANT MaxLen
\* ( ) ' # . + - 1 0 a e / " ; space newline  |  \ t x
Alphabet == {40, 41, 39, 35, 46, 43, 45, 49, 48, 97, 101, 47, 34, 59, 32, 10, 124, 92, 116, 120}
VARIABLE text
Init == text = <<>>
Next == Len(text) < MaxLen /\ \E c \in Alphabet : text' = Append(text, c)
Total == LET L == Lex(text) IN
           \/ L.k \in {"error", "unsupported"}
           \/ (L.k = "tokens" /\ ReadAll(L.toks).k \in {"data", "error"} /\ DepthOf(L.toks, 1, 0) \in Int)
=============================================================================
