CONSTANT Full = FALSE
INIT Init
NEXT Next
INVARIANT RoundTrip
INVARIANT Emit
CHECK_DEADLOCK FALSE
