------------------------------- MODULE MCPairs -------------------------------
(***************************************************************************)
(* Every straight-line program of MaxOps definitions over a prelude with    *)
(* structurally equal but distinct lists and a list that contains one of    *)
(* them.  After each definition the new variable is compared with every     *)
(* earlier one by eq?, eqv? and equal?, and its value is read.              *)
(* Broken = "structural" is a model in which memv compares with equal?      *)
(* - TLC must reject it (MemvLaw).                                          *)
(***************************************************************************)
EXTENDS Pairs, Json, TLC

CONSTANTS MaxOps, Broken

Atoms == {MkInt(1), MkInt(2), Nil}
VARIABLES heap, env, ops, probes
vars == <<heap, env, ops, probes>>

\* prelude: x1 = (list 1 2), x2 = (list 1 2), x3 = (list x1 2), x4 = (cons 1 x2)
Prelude ==
  LET a == AllocList(<<>>, <<MkInt(1), MkInt(2)>>, Nil)
      b == AllocList(a.h, <<MkInt(1), MkInt(2)>>, Nil)
      c == AllocList(b.h, <<a.v, MkInt(2)>>, Nil)
      d == AllocCons(c.h, MkInt(1), b.v)
  IN [h |-> d.h, env |-> <<a.v, b.v, c.v, d.v>>]
PreludeOps == << [op |-> "list2", u |-> [k |-> "atom", v |-> MkInt(1)], w |-> [k |-> "atom", v |-> MkInt(2)]],
                 [op |-> "list2", u |-> [k |-> "atom", v |-> MkInt(1)], w |-> [k |-> "atom", v |-> MkInt(2)]],
                 [op |-> "list2", u |-> [k |-> "var", i |-> 1], w |-> [k |-> "atom", v |-> MkInt(2)]],
                 [op |-> "cons", u |-> [k |-> "atom", v |-> MkInt(1)], w |-> [k |-> "var", i |-> 2]] >>

Operands(e) == {[k |-> "atom", v |-> a] : a \in Atoms} \cup {[k |-> "var", i |-> i] : i \in DOMAIN e}
Val(e, o) == IF o.k = "atom" THEN o.v ELSE e[o.i]
MemOp(h, x, l) == IF Broken = "structural"
                  THEN LET RECURSIVE M(_) M(c) == IF ~IsRef(c) THEN False ELSE IF EqualV(h, x, h[c.id].a) THEN c ELSE M(h[c.id].d) IN M(l)
                  ELSE Mem(h, x, l)
\* the probes of the newest variable against every earlier one
Probe(h, e) == LET n == Len(e) IN
  [i \in 1..(n - 1) |-> [eqv |-> EqvV(e[n], e[i]), equal |-> EqualV(h, e[n], e[i]),
                         \* eq? is eqv? except on numbers, where R7RS leaves it open
                         eqdef |-> ~(e[n].t = "int" /\ e[i].t = "int")]]
Apply(o, r) == /\ heap' = r.h /\ env' = Append(env, r.v) /\ ops' = Append(ops, o)
               /\ probes' = Append(probes, Probe(r.h, Append(env, r.v)))
Init == heap = Prelude.h /\ env = Prelude.env /\ ops = <<>> /\ probes = <<>>
Next ==
  /\ Len(ops) < MaxOps
  /\ \/ \E u \in Operands(env), w \in Operands(env) :
          \/ Apply([op |-> "list2", u |-> u, w |-> w], AllocList(heap, <<Val(env, u), Val(env, w)>>, Nil))
          \/ Apply([op |-> "cons", u |-> u, w |-> w], AllocCons(heap, Val(env, u), Val(env, w)))
     \/ \E i \in DOMAIN env : IsRef(env[i]) /\
          \/ Apply([op |-> "car", i |-> i], [h |-> heap, v |-> heap[env[i].id].a])
          \/ Apply([op |-> "cdr", i |-> i], [h |-> heap, v |-> heap[env[i].id].d])
          \/ Apply([op |-> "last-pair", i |-> i], [h |-> heap, v |-> LastPair(heap, env[i])])
     \/ \E i \in DOMAIN env, w \in Operands(env) : Proper(heap, env[i]) /\
          Apply([op |-> "append", i |-> i, w |-> w], AppendOp(heap, env[i], Val(env, w)))
     \/ \E i \in DOMAIN env, k \in 0..2 : k <= Length(heap, env[i]) /\ (IsRef(env[i]) \/ k = 0) /\
          Apply([op |-> "list-tail", i |-> i, n |-> k], [h |-> heap, v |-> Tail_(heap, env[i], k)])
     \/ \E u \in Operands(env), i \in DOMAIN env, f \in {"memv", "memq"} : Proper(heap, env[i]) /\
          Apply([op |-> f, u |-> u, i |-> i], [h |-> heap, v |-> MemOp(heap, Val(env, u), env[i])])
Spec == Init /\ [][Next]_vars

\* ---- laws (R7RS 6.4, 6.1), independent of the operation definitions
\* memv returns a tail of its list argument whose car is eqv? to the object, preceded by no such element, or #f when there is none
MemvLaw ==
  \A n \in DOMAIN ops : ops[n].op \in {"memv", "memq"} =>
     LET k == Len(Prelude.env) + n                  \* the variable this operation defined
         x == Val(env, ops[n].u)
         l == env[ops[n].i]
         es == SpineElems(heap, l)
     IN IF env[k] = False THEN \A j \in DOMAIN es : ~EqvV(x, es[j])
        ELSE \E j \in DOMAIN es : /\ EqvV(x, es[j]) /\ \A jj \in 1..(j - 1) : ~EqvV(x, es[jj])
                                  /\ env[k] = Tail_(heap, l, j - 1)                       \* the very same pair
\* append copies: the result shares no pair of its first argument's spine, and its tail after that many elements IS the last argument
AppendLaw ==
  \A n \in DOMAIN ops : ops[n].op = "append" =>
     LET k == Len(Prelude.env) + n
         l == env[ops[n].i]
         len == Length(heap, l)
     IN /\ Tail_(heap, env[k], len) = Val(env, ops[n].w)
        /\ \A j \in 0..(len - 1) : Tail_(heap, env[k], j) # Tail_(heap, l, j)
        /\ \A j \in 1..len : EqvV(SpineElems(heap, env[k])[j], SpineElems(heap, l)[j])    \* elements are shared, not copied
\* equal? is the structural closure of eqv?; eqv? implies equal?
EquivLaw == \A n \in DOMAIN probes : \A i \in DOMAIN probes[n] : probes[n][i].eqv => probes[n][i].equal
Laws == MemvLaw /\ AppendLaw /\ EquivLaw

Emit == Len(ops) = MaxOps =>
  PrintT(<<"VEC", ToJson([ops |-> ops, vals |-> [i \in DOMAIN env |-> Deref(heap, env[i])], probes |-> probes])>>)
=============================================================================
