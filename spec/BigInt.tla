------------------------------- MODULE BigInt -------------------------------
(***************************************************************************)
(* Arbitrary-precision integers for TLC (whose integers are 32-bit).       *)
(* A magnitude is a little-endian sequence of limbs in base 2^15 without   *)
(* leading (= trailing in the sequence) zero limbs; zero is <<>>.          *)
(* A big integer is [neg |-> BOOLEAN, mag |-> magnitude]; zero is never    *)
(* negative.  Limb products stay below 2^30, sums below 2^31.              *)
(***************************************************************************)
EXTENDS Naturals, Integers, Sequences

Base == 32768
LimbBits == 15

RECURSIVE Strip(_)
Strip(m) == IF m = <<>> THEN m ELSE IF m[Len(m)] = 0 THEN Strip(SubSeq(m, 1, Len(m) - 1)) ELSE m

RECURSIVE MagOfNat(_)
MagOfNat(n) == IF n = 0 THEN <<>> ELSE <<n % Base>> \o MagOfNat(n \div Base)

\* -2^31 cannot be negated in TLC, so it is built from -(n+1)
BigOfInt(n) ==
  IF n >= 0 THEN [neg |-> FALSE, mag |-> MagOfNat(n)]
  ELSE LET k == -(n + 1)     \* k >= 0, |n| = k + 1
           m == MagOfNat(k)
           RECURSIVE Inc(_)
           Inc(s) == IF s = <<>> THEN <<1>>
                     ELSE IF s[1] + 1 < Base THEN <<s[1] + 1>> \o Tail(s) ELSE <<0>> \o Inc(Tail(s))
       IN [neg |-> TRUE, mag |-> Inc(m)]

Limb(m, i) == IF i <= Len(m) THEN m[i] ELSE 0

\* -1, 0, 1
RECURSIVE MagCmpFrom(_, _, _)
MagCmpFrom(a, b, i) == IF i = 0 THEN 0
                       ELSE IF a[i] < b[i] THEN -1 ELSE IF a[i] > b[i] THEN 1 ELSE MagCmpFrom(a, b, i - 1)
MagCmp(a, b) == IF Len(a) < Len(b) THEN -1 ELSE IF Len(a) > Len(b) THEN 1 ELSE MagCmpFrom(a, b, Len(a))

RECURSIVE MagAddFrom(_, _, _, _)
MagAddFrom(a, b, i, carry) ==
  IF i > Len(a) /\ i > Len(b) THEN (IF carry = 0 THEN <<>> ELSE <<carry>>)
  ELSE LET s == Limb(a, i) + Limb(b, i) + carry IN <<s % Base>> \o MagAddFrom(a, b, i + 1, s \div Base)
MagAdd(a, b) == MagAddFrom(a, b, 1, 0)

\* a >= b
RECURSIVE MagSubFrom(_, _, _, _)
MagSubFrom(a, b, i, borrow) ==
  IF i > Len(a) THEN <<>>
  ELSE LET d == a[i] - Limb(b, i) - borrow IN
       IF d < 0 THEN <<d + Base>> \o MagSubFrom(a, b, i + 1, 1) ELSE <<d>> \o MagSubFrom(a, b, i + 1, 0)
MagSub(a, b) == Strip(MagSubFrom(a, b, 1, 0))

RECURSIVE MagMulSmallFrom(_, _, _, _)
MagMulSmallFrom(a, k, i, carry) ==
  IF i > Len(a) THEN (IF carry = 0 THEN <<>> ELSE <<carry>>)
  ELSE LET p == a[i] * k + carry IN <<p % Base>> \o MagMulSmallFrom(a, k, i + 1, p \div Base)
MagMulSmall(a, k) == IF k = 0 \/ a = <<>> THEN <<>> ELSE MagMulSmallFrom(a, k, 1, 0)     \* 0 <= k < Base

RECURSIVE MagMulFrom(_, _, _)
MagMulFrom(a, b, j) ==     \* sum over limbs of b, shifted
  IF j > Len(b) THEN <<>>
  ELSE MagAdd([i \in 1..(j - 1) |-> 0] \o MagMulSmall(a, b[j]), MagMulFrom(a, b, j + 1))
MagMul(a, b) == IF a = <<>> \/ b = <<>> THEN <<>> ELSE Strip(MagMulFrom(a, b, 1))

\* bits
RECURSIVE BitLenSmall(_)
BitLenSmall(n) == IF n = 0 THEN 0 ELSE 1 + BitLenSmall(n \div 2)
MagBitLen(m) == IF m = <<>> THEN 0 ELSE (Len(m) - 1) * LimbBits + BitLenSmall(m[Len(m)])
RECURSIVE Pow2(_)
Pow2(n) == IF n = 0 THEN 1 ELSE 2 * Pow2(n - 1)          \* n <= 30
MagShl(m, n) ==     \* m * 2^n
  IF m = <<>> THEN m
  ELSE [i \in 1..(n \div LimbBits) |-> 0] \o MagMulSmall(m, Pow2(n % LimbBits))
MagBit(m, i) == (Limb(m, i \div LimbBits + 1) \div Pow2(i % LimbBits)) % 2      \* bit i (0 = least significant)
MagShr(m, n) ==     \* floor(m / 2^n)
  LET w == n \div LimbBits
      r == n % LimbBits
  IN IF w >= Len(m) THEN <<>>
     ELSE Strip([i \in 1..(Len(m) - w) |->
                   (m[i + w] \div Pow2(r)) + (Limb(m, i + w + 1) % Pow2(r)) * Pow2(LimbBits - r)])
\* are any of the low n bits set?
MagLowBitsNonZero(m, n) == \E i \in 0..(n - 1) : i < Len(m) * LimbBits /\ MagBit(m, i) = 1
MagIsOdd(m) == m # <<>> /\ m[1] % 2 = 1

\* floor division of magnitudes by binary long division: <<quotient, remainder>>
RECURSIVE MagDivLoop(_, _, _, _, _)
MagDivLoop(a, b, i, q, r) ==     \* processes bit i of a (from the top) with partial quotient q, remainder r
  IF i < 0 THEN <<q, r>>
  ELSE LET r2 == MagAdd(MagShl(r, 1), IF MagBit(a, i) = 1 THEN <<1>> ELSE <<>>)
           ge == MagCmp(r2, b) >= 0
       IN MagDivLoop(a, b, i - 1,
                     MagAdd(MagShl(q, 1), IF ge THEN <<1>> ELSE <<>>),
                     IF ge THEN MagSub(r2, b) ELSE r2)
MagDivMod(a, b) == MagDivLoop(a, b, MagBitLen(a) - 1, <<>>, <<>>)      \* b # <<>>

\* greatest common divisor of magnitudes (Euclid); MagGcd(a, <<>>) = a
RECURSIVE MagGcd(_, _)
MagGcd(a, b) == IF b = <<>> THEN a ELSE MagGcd(b, MagDivMod(a, b)[2])

\* signed
BigZero == [neg |-> FALSE, mag |-> <<>>]
Mk(neg, mag) == [neg |-> (neg /\ mag # <<>>), mag |-> mag]
BigIsZero(a) == a.mag = <<>>
BigNeg(a) == Mk(~a.neg, a.mag)
BigAbs(a) == Mk(FALSE, a.mag)
BigAdd(a, b) ==
  IF a.neg = b.neg THEN Mk(a.neg, MagAdd(a.mag, b.mag))
  ELSE LET c == MagCmp(a.mag, b.mag) IN
       IF c = 0 THEN BigZero
       ELSE IF c > 0 THEN Mk(a.neg, MagSub(a.mag, b.mag)) ELSE Mk(b.neg, MagSub(b.mag, a.mag))
BigSub(a, b) == BigAdd(a, BigNeg(b))
BigMul(a, b) == Mk(a.neg # b.neg, MagMul(a.mag, b.mag))
BigSign(a) == IF a.mag = <<>> THEN 0 ELSE IF a.neg THEN -1 ELSE 1
BigCmp(a, b) == BigSign(BigSub(a, b))
BigEq(a, b) == a = b
\* fits in an i32?  (|x| < 2^31, or x = -2^31)
FitsI32(a) == \/ MagBitLen(a.mag) <= 31
              \/ (a.neg /\ a.mag = <<0, 0, 2>>)
\* value as a TLC integer (only when FitsI32)
RECURSIVE MagToNat(_, _)
MagToNat(m, i) == IF i > Len(m) THEN 0 ELSE m[i] + Base * MagToNat(m, i + 1)
BigToInt(a) == IF a.neg /\ a.mag = <<0, 0, 2>> THEN -2147483647 - 1
               ELSE IF a.neg THEN -MagToNat(a.mag, 1) ELSE MagToNat(a.mag, 1)
=============================================================================
