CONSTANTS
  GC = FALSE
  Broken = "none"
  MaxSteps = 20000
SPECIFICATION TSpec
INVARIANT TDone
CHECK_DEADLOCK FALSE
