CONSTANTS
  GC = FALSE
  MaxSteps = 20000
SPECIFICATION TSpec
INVARIANT TDone
CHECK_DEADLOCK FALSE
