CONSTANTS
  GC = FALSE
  NonTailIf = FALSE
  MaxSteps = 20000
SPECIFICATION TSpec
INVARIANT TDone
CHECK_DEADLOCK FALSE
