-------------------------------- MODULE Pairs --------------------------------
(***************************************************************************)
(* Pairs with identity (C11: memq, memv, equal?, append, list-tail,        *)
(* last-pair, car/cdr, cons, list).  Ruschm has no set-car!/set-cdr!, so    *)
(* the identity of a pair is observable only through eq?/eqv?, memq/memv    *)
(* and the sharing list procedures promise (append shares its last          *)
(* argument, list-tail/memv/last-pair return a tail of their argument).     *)
(* The value model of Machine.tla cannot say that two freshly built,        *)
(* structurally equal lists are not eqv?; this heap model can.              *)
(*   heap: sequence of cells [a, d]; a value is an atom (Data) or a          *)
(*   reference [t |-> "ref", id].  Cells are immutable.                      *)
(***************************************************************************)
EXTENDS Data

Ref(i) == [t |-> "ref", id |-> i]
IsRef(v) == v.t = "ref"
\* eqv?: the same pair, or equal atoms (exact integers, symbols, booleans, the empty list)
EqvV(a, b) == IF IsRef(a) /\ IsRef(b) THEN a.id = b.id ELSE IF IsRef(a) \/ IsRef(b) THEN FALSE ELSE a = b
RECURSIVE EqualV(_, _, _)
EqualV(h, a, b) == IF IsRef(a) /\ IsRef(b) THEN EqualV(h, h[a.id].a, h[b.id].a) /\ EqualV(h, h[a.id].d, h[b.id].d)
                   ELSE IF IsRef(a) \/ IsRef(b) THEN FALSE ELSE a = b
RECURSIVE Deref(_, _)
Deref(h, v) == IF IsRef(v) THEN Cons(Deref(h, h[v.id].a), Deref(h, h[v.id].d)) ELSE v
RECURSIVE Proper(_, _)
Proper(h, v) == IF IsRef(v) THEN Proper(h, h[v.id].d) ELSE v = Nil
RECURSIVE Length(_, _)
Length(h, v) == IF IsRef(v) THEN 1 + Length(h, h[v.id].d) ELSE 0
RECURSIVE SpineElems(_, _)
SpineElems(h, v) == IF IsRef(v) THEN <<h[v.id].a>> \o SpineElems(h, h[v.id].d) ELSE <<>>

\* every operation returns [h |-> heap afterwards, v |-> result]
AllocCons(h, a, d) == [h |-> Append(h, [a |-> a, d |-> d]), v |-> Ref(Len(h) + 1)]
RECURSIVE AllocList(_, _, _)
AllocList(h, xs, tl) ==        \* fresh cells for xs, ending in tl (cells are allocated last element first)
  IF xs = <<>> THEN [h |-> h, v |-> tl]
  ELSE LET r == AllocList(h, Tail(xs), tl) IN AllocCons(r.h, Head(xs), r.v)
RECURSIVE Tail_(_, _, _)
Tail_(h, v, k) == IF k = 0 THEN v ELSE Tail_(h, h[v.id].d, k - 1)                \* k <= length
RECURSIVE LastPair(_, _)
LastPair(h, v) == IF IsRef(h[v.id].d) THEN LastPair(h, h[v.id].d) ELSE v          \* v a pair
RECURSIVE Mem(_, _, _)
Mem(h, x, l) == IF ~IsRef(l) THEN False ELSE IF EqvV(x, h[l.id].a) THEN l ELSE Mem(h, x, h[l.id].d)   \* l a proper list
\* (append l x): a copy of the spine of l that ends in x itself
AppendOp(h, l, x) == AllocList(h, SpineElems(h, l), x)
=============================================================================
