------------------------------ MODULE Programs ------------------------------
(***************************************************************************)
(* Finite families of programs, defined in TLA+, that TLC explores         *)
(* exhaustively on the reference machine (MCMachine.tla) and prints for    *)
(* replay on the real interpreter.  A program is a record                  *)
(*    [forms |-> <<top-level form, ...>>, tag |-> <<...>>]                 *)
(***************************************************************************)
EXTENDS Data

\* ---- constructors (same shapes as the JSON interchange schema, DESIGN.md Appendix A)
Lit(v) == [t |-> "lit", v |-> v]
Num(n) == Lit(MkInt(n))
Var(x) == [t |-> "var", x |-> x]
Quote(d) == [t |-> "quote", d |-> d]
App(f, as) == [t |-> "app", f |-> f, as |-> as]
Call(name, as) == App(Var(name), as)
Lam(ps, rest, defs, body) == [t |-> "lam", ps |-> ps, rest |-> rest, defs |-> defs, body |-> body]
Fn(ps, body) == Lam(ps, "", <<>>, body)
If3(c, a, b) == [t |-> "if", c |-> c, a |-> a, b |-> <<b>>]
If2(c, a) == [t |-> "if", c |-> c, a |-> a, b |-> <<>>]
Set(x, e) == [t |-> "set", x |-> x, e |-> e]
Begin(es) == [t |-> "begin", es |-> es]
B(x, e) == [x |-> x, e |-> e]
Let(bs, body) == [t |-> "let", bs |-> bs, defs |-> <<>>, body |-> body]
LetStar(bs, body) == [t |-> "letstar", bs |-> bs, defs |-> <<>>, body |-> body]
Clause(c, es) == [c |-> c, arrow |-> FALSE, es |-> es]
ArrowClause(c, f) == [c |-> c, arrow |-> TRUE, es |-> <<f>>]
Cond(cls) == [t |-> "cond", cls |-> cls, els |-> <<>>]
CondElse(cls, els) == [t |-> "cond", cls |-> cls, els |-> <<els>>]
CClause(ds, es) == [ds |-> ds, arrow |-> FALSE, es |-> es]
CArrow(ds, f) == [ds |-> ds, arrow |-> TRUE, es |-> <<f>>]
Case(key, cls) == [t |-> "case", key |-> key, cls |-> cls, els |-> <<>>]
CaseElse(key, cls, els) == [t |-> "case", key |-> key, cls |-> cls, els |-> <<[arrow |-> FALSE, es |-> els]>>]
CaseElseArrow(key, cls, f) == [t |-> "case", key |-> key, cls |-> cls, els |-> <<[arrow |-> TRUE, es |-> <<f>>]>>]
And(es) == [t |-> "and", es |-> es]
Or(es) == [t |-> "or", es |-> es]
When(c, es) == [t |-> "when", c |-> c, es |-> es]
Unless(c, es) == [t |-> "unless", c |-> c, es |-> es]
Define(x, e) == [t |-> "define", x |-> x, e |-> e]
Tick(l, e) == Call("tick!", <<Num(l), e>>)       \* logs l, returns the value of e
TickV(l, v) == Tick(l, Lit(v))

----------------------------------------------------------------------------
(* C05: every derived form, with a ticking expression in every sub-form position, every truth
   assignment to its tests, and every ordered pair (outer, inner) with the inner form placed in
   every sub-form position of the outer one. *)

DerivedKinds == <<"begin", "let", "letstar", "cond", "cond2", "cond3", "case", "case2", "case3", "and", "or", "when", "unless">>
\* the degenerate shapes: one clause, no clause, one body expression, no binding - each is a rule of its own in an
\* implementation by rewriting, and is reached by a compound (ticking) key/test only when written directly
SmallKinds == {"case1e", "case1", "case1a", "case1ea", "cond1", "cond1t", "cond1a", "cond1e", "and0", "and1", "or0", "or1",
               "when1", "unless1", "begin1", "let0", "letstar0", "letstar1", "or2", "and2", "case1l", "let0d", "letstar0d"}
\* number of sub-form positions (holes) of each template
Holes(k) == CASE k \in {"and0", "or0"} -> 0 [] k \in {"and1", "or1", "begin1", "cond1t", "letstar0", "case1a", "case1ea", "cond1a"} -> 1
              [] k \in {"case1e", "case1", "cond1", "cond1e", "when1", "unless1", "let0", "letstar1", "or2", "and2", "case1l", "let0d", "letstar0d"} -> 2
              [] k = "begin" -> 3 [] k = "let" -> 3 [] k = "letstar" -> 3 [] k = "cond" -> 5 [] k = "cond2" -> 3 [] k = "cond3" -> 3
              [] k = "case" -> 4 [] k = "case2" -> 3 [] k = "case3" -> 2 [] k = "and" -> 3 [] k = "or" -> 3 [] k = "when" -> 3 [] k = "unless" -> 3
\* which holes are tests (their truth value is chosen) - the others hold plain values
TestHoles(k) == CASE k \in {"case1e", "case1", "case1a", "case1ea", "cond1", "cond1t", "cond1a", "and1", "or1", "when1", "unless1", "or2", "and2", "let0d", "letstar0d"} -> {1}
                  [] k = "cond" -> {1, 3} [] k = "cond2" -> {1, 2} [] k = "cond3" -> {1, 3} [] k = "and" -> {1, 2} [] k = "or" -> {1, 2}
                  [] k = "when" -> {1} [] k = "unless" -> {1} [] k = "case" -> {1} [] k = "case2" -> {1} [] k = "case3" -> {1} [] OTHER -> {}
\* the values a test hole may take: #f, and two true values one of which is not a boolean
TestValues(k) == IF k \in {"case", "case2", "case3", "case1e", "case1", "case1a", "case1ea"} THEN {MkInt(1), MkInt(3), MkInt(5)} ELSE {False, MkInt(0), True}

\* the receiver of a => clause is itself an expression with an effect: it must be evaluated only
\* when its clause is selected (label l), and then called once (label l + 1)
ReceiverFn(l) == Tick(l, Fn(<<"r">>, <<Tick(l + 1, Call("list", <<Var("r")>>))>>))

\* the template of kind k over hole fillers h (a sequence of expressions) with label base b
Template(k, h, b) ==
  CASE k = "begin"   -> Begin(<<h[1], h[2], h[3]>>)
    [] k = "let"     -> Let(<<B("p", h[1]), B("q", h[2])>>, <<Call("list", <<Var("p"), Var("q"), h[3]>>)>>)
    [] k = "letstar" -> LetStar(<<B("p", h[1]), B("q", Call("list", <<Var("p"), h[2]>>))>>, <<Call("list", <<Var("p"), Var("q"), h[3]>>)>>)
    [] k = "cond"    -> CondElse(<<Clause(h[1], <<h[2]>>), ArrowClause(h[3], ReceiverFn(b + 8)), Clause(h[4], <<>>)>>, <<h[5]>>)
    [] k = "cond2"   -> Cond(<<Clause(h[1], <<>>), Clause(h[2], <<Tick(b + 8, Num(1)), h[3]>>)>>)
    [] k = "cond3"   -> Cond(<<Clause(h[1], <<h[2]>>), ArrowClause(h[3], ReceiverFn(b + 8))>>)      \* => clause last, no else
    [] k = "case3"   -> Case(h[1], <<CClause(<<MkInt(1)>>, <<h[2]>>), CArrow(<<MkInt(3)>>, ReceiverFn(b + 8))>>)
    [] k = "case"    -> CaseElse(h[1], <<CClause(<<MkInt(1), MkInt(2)>>, <<h[2]>>), CArrow(<<MkInt(3)>>, ReceiverFn(b + 8))>>, <<h[3], h[4]>>)
    [] k = "case2"   -> Case(h[1], <<CClause(<<MkInt(1)>>, <<h[2]>>), CClause(<<MkSym("a"), MkInt(3)>>, <<h[3]>>)>>)
    [] k = "and"     -> And(<<h[1], h[2], h[3]>>)
    [] k = "or"      -> Or(<<h[1], h[2], h[3]>>)
    [] k = "when"    -> When(h[1], <<h[2], h[3]>>)
    [] k = "unless"  -> Unless(h[1], <<h[2], h[3]>>)
    [] k = "case1e"  -> CaseElse(h[1], <<>>, <<h[2]>>)
    [] k = "case1"   -> Case(h[1], <<CClause(<<MkInt(1), MkInt(3)>>, <<h[2]>>)>>)
    [] k = "case1a"  -> Case(h[1], <<CArrow(<<MkInt(1), MkInt(3)>>, ReceiverFn(b + 8))>>)
    [] k = "case1ea" -> CaseElseArrow(h[1], <<>>, ReceiverFn(b + 8))
    [] k = "cond1"   -> Cond(<<Clause(h[1], <<h[2]>>)>>)
    [] k = "cond1t"  -> Cond(<<Clause(h[1], <<>>)>>)
    [] k = "cond1a"  -> Cond(<<ArrowClause(h[1], ReceiverFn(b + 8))>>)
    [] k = "cond1e"  -> CondElse(<<>>, <<h[1], h[2]>>)
    [] k = "and0"    -> And(<<>>)
    [] k = "and1"    -> And(<<h[1]>>)
    [] k = "or0"     -> Or(<<>>)
    [] k = "or1"     -> Or(<<h[1]>>)
    \* a single datum that is a list, and a key that is a freshly built list of the same shape: eqv? says no
    [] k = "case1l"  -> CaseElse(Call("list", <<Num(1), Num(2)>>), <<CClause(<<MkList(<<MkInt(1), MkInt(2)>>)>>, <<h[1]>>)>>, <<h[2]>>)
    \* a body that starts with a definition of x: x belongs to this body's own scope, whatever is called x outside
    [] k = "let0d"   -> [t |-> "let", bs |-> <<>>, defs |-> <<B("x", h[1])>>, body |-> <<Call("list", <<Var("x"), h[2]>>)>>]
    [] k = "letstar0d" -> [t |-> "letstar", bs |-> <<>>, defs |-> <<B("x", h[1])>>, body |-> <<Call("list", <<Var("x"), h[2]>>)>>]
    [] k = "or2"     -> Or(<<h[1], h[2]>>)
    [] k = "and2"    -> And(<<h[1], h[2]>>)
    [] k = "when1"   -> When(h[1], <<h[2]>>)
    [] k = "unless1" -> Unless(h[1], <<h[2]>>)
    [] k = "begin1"  -> Begin(<<h[1]>>)
    [] k = "let0"    -> Let(<<>>, <<h[1], h[2]>>)
    [] k = "letstar0" -> LetStar(<<>>, <<h[1]>>)
    [] k = "letstar1" -> LetStar(<<B("p", h[1])>>, <<Call("list", <<Var("p"), h[2]>>)>>)

\* a leaf: logs its label and returns v
Leaf(b, i, v) == TickV(b + i, v)
\* default value of a non-test hole
PlainValue(i) == MkInt(10 + i)

\* all assignments of values to the test holes of kind k
Assignments(k) == [TestHoles(k) -> TestValues(k)]
LeafFillers(k, b, asg) == [i \in 1..Holes(k) |-> Leaf(b, i, IF i \in TestHoles(k) THEN asg[i] ELSE PlainValue(i))]
Single(k, b, asg) == Template(k, LeafFillers(k, b, asg), b)

\* outer kind ko with assignment ao; its hole p holds the inner form (kind ki, assignment ai)
Nested(ko, ao, p, ki, ai) ==
  Template(ko, [LeafFillers(ko, 0, ao) EXCEPT ![p] = Single(ki, 100, ai)], 0)

KindSet == {DerivedKinds[i] : i \in DOMAIN DerivedKinds}
\* surrounding program: top level, inside a procedure body, under a binder of a name the
\* bundled rules introduce (the leaves' values are irrelevant to the binder; one extra leaf reads it)
Contexts == {"top", "proc", "x", "temp", "atom-key"}
InContext(c, e) ==
  CASE c = "top"  -> e
    [] c = "proc" -> App(Lam(<<>>, "", <<>>, <<e>>), <<>>)
    [] OTHER      -> Let(<<B(c, Num(55))>>, <<Call("list", <<e, Var(c)>>)>>)

\* under a binder context the deciding leaves of the inner form read the bound variable
SingleReading(k, b, asg, name) ==
  Template(k, [i \in 1..Holes(k) |->
                 IF i \in TestHoles(k) THEN Leaf(b, i, asg[i])
                 ELSE Tick(b + i, Var(name))], b)

SinglePrograms ==
  UNION {UNION {{[forms |-> <<InContext(c, Single(k, 0, a))>>, tag |-> <<"single", k, c>>] : a \in Assignments(k)}
                : c \in {"top", "proc"}} : k \in KindSet \cup SmallKinds}
BinderPrograms ==
  \* (the bound variable is read once more AFTER the form: the form may neither capture nor overwrite it)
  UNION {UNION {{[forms |-> <<Let(<<B(c, Num(55))>>, <<Call("list", <<SingleReading(k, 0, a, c), Var(c)>>)>>)>>, tag |-> <<"binder", k, c>>] : a \in Assignments(k)}
                : c \in {"x", "temp", "atom-key"}} : k \in KindSet \cup SmallKinds}
NestedPrograms(full) ==
  UNION {UNION {UNION {UNION {
     {[forms |-> <<Nested(ko, ao, p, ki, ai)>>, tag |-> <<"nested", ko, ki>>] : ai \in Assignments(ki)}
       : ao \in (IF full THEN Assignments(ko)
                 ELSE {a \in Assignments(ko) : \A i \in TestHoles(ko) : a[i] # True})}   \* quick: drop the redundant true value
       : p \in 1..Holes(ko)} : ki \in KindSet} : ko \in KindSet}

DerivedFamily(full) == SinglePrograms \cup BinderPrograms \cup NestedPrograms(full)

----------------------------------------------------------------------------
(* C01: procedure skeletons (0..MaxN fixed parameters, with and without a rest parameter) x body
   kinds x every argument tuple over a small domain, each called through four equivalent
   spellings: direct, through a rest-parameter wrapper with car/cdr, and twice through apply. *)
ArgDom == {MkInt(0), MkInt(2), False}
ParamNames == <<"p1", "p2", "p3">>
Params(n) == SubSeq(ParamNames, 1, n)
P(i) == Var(ParamNames[i])
CoreKinds == {"first", "last", "sum", "rest", "restcar", "internal", "mutual", "closure", "truthy", "shadow", "hof", "quoted", "collect"}
Applicable(k, n, r) ==
  CASE k \in {"first", "internal", "closure", "truthy", "shadow", "hof", "collect"} -> n >= 1
    [] k \in {"last", "sum"} -> n >= 2
    [] k \in {"rest", "restcar"} -> r
    [] OTHER -> TRUE
\* <<internal definitions, body expressions>>
CoreBody(k, n) ==
  CASE k = "first"   -> <<<<>>, <<Tick(1, P(1))>>>>
    [] k = "last"    -> <<<<>>, <<Tick(1, Num(0)), P(n)>>>>
    [] k = "sum"     -> <<<<>>, <<Call("+", <<P(1), Call("*", <<Num(2), P(2)>>)>>)>>>>
    [] k = "rest"    -> <<<<>>, <<Var("rest")>>>>
    [] k = "restcar" -> <<<<>>, <<If3(Call("null?", <<Var("rest")>>), Num(0), Call("car", <<Var("rest")>>))>>>>
    [] k = "internal" ->
         <<<<B("helper", Fn(<<"z">>, <<Call("list", <<Var("z"), P(1)>>)>>)),
             B("twice", Fn(<<"z">>, <<Call("helper", <<Call("helper", <<Var("z")>>)>>)>>))>>,
           <<Call("twice", <<Num(7)>>)>>>>
    [] k = "mutual" ->
         <<<<B("ev", Fn(<<"k">>, <<If3(Call("=", <<Var("k"), Num(0)>>), Lit(True), Call("od", <<Call("-", <<Var("k"), Num(1)>>)>>))>>)),
             B("od", Fn(<<"k">>, <<If3(Call("=", <<Var("k"), Num(0)>>), Lit(False), Call("ev", <<Call("-", <<Var("k"), Num(1)>>)>>))>>))>>,
           <<Call("list", <<Call("ev", <<Num(4)>>), Call("od", <<Num(4)>>)>>)>>>>
    [] k = "closure" -> <<<<>>, <<Fn(<<"y">>, <<Call("list", <<Var("y"), P(1)>>)>>)>>>>
    [] k = "truthy"  -> <<<<>>, <<If3(P(1), Quote(MkSym("yes")), Quote(MkSym("no")))>>>>
    [] k = "shadow"  -> <<<<>>, <<Call("list", <<App(Fn(<<"p1">>, <<Call("list", <<Var("p1")>>)>>), <<Num(99)>>), P(1)>>)>>>>
    [] k = "hof"     -> <<<<>>, <<Call("map", <<Fn(<<"z">>, <<Call("list", <<Var("z"), P(1)>>)>>), Quote(MkList(<<MkInt(1), MkInt(2)>>))>>)>>>>
    [] k = "quoted"  -> <<<<>>, <<Quote(MkList(<<MkSym("a"), MkList(<<MkInt(1)>>), MkSym("b")>>))>>>>
    \* a loop written with a tail call to itself: every iteration has its own bindings, which the closures made in it keep
    [] k = "collect" ->
         <<<<B("collect", Fn(<<"i", "acc">>, <<If3(Call("=", <<Var("i"), Num(0)>>), Var("acc"),
                                                 Call("collect", <<Call("-", <<Var("i"), Num(1)>>),
                                                                   Call("cons", <<Fn(<<>>, <<Call("list", <<Var("i"), P(1)>>)>>), Var("acc")>>)>>))>>))>>,
           <<Call("map", <<Fn(<<"t">>, <<App(Var("t"), <<>>)>>), Call("collect", <<Num(3), Quote(Nil)>>)>>)>>>>

CoreLambda(k, n, r) == Lam(Params(n), IF r THEN "rest" ELSE "", CoreBody(k, n)[1], CoreBody(k, n)[2])
Selector(i) == CASE i = 1 -> "car" [] i = 2 -> "cadr" [] i = 3 -> "caddr"
\* the same procedure spelled with a single rest parameter and car/cdr
RestSpelling(k, n, r) ==
  Lam(<<>>, "all", <<>>,
      <<Call("apply", <<CoreLambda(k, n, r), Var("all")>>)>>)
CarCdrSpelling(k, n) ==
  Lam(<<>>, "all", <<>>,
      <<App(CoreLambda(k, n, FALSE), [i \in 1..n |-> Call(Selector(i), <<Var("all")>>)])>>)
Extras == {<<>>, <<Num(7)>>, <<Num(7), Num(8)>>}
ArgExprs(vals) == [i \in DOMAIN vals |-> IF i = 1 THEN Tick(10, Lit(vals[i])) ELSE Lit(vals[i])]
FinishCall(k, call) == IF k = "closure" THEN App(call, <<Num(9)>>) ELSE call
CoreProgram(k, n, r, vals, ex) ==
  LET args == ArgExprs(vals) \o ex
      g == IF r THEN RestSpelling(k, n, r) ELSE CarCdrSpelling(k, n)
  IN [forms |-> <<Define("helper", Quote(MkSym("outer-helper"))), Define("ev", Quote(MkSym("outer-ev"))),
                  \* top-level variables named like the parameters: binding parameters on a call never touches them
                  Define("p1", Quote(MkSym("outer-p1"))), Define("rest", Quote(MkSym("outer-rest"))), Define("all", Quote(MkSym("outer-all"))),
                  Define("f", CoreLambda(k, n, r)),
                  Define("g", g),
                  FinishCall(k, Call("f", args)),
                  FinishCall(k, Call("g", args)),
                  FinishCall(k, Call("apply", <<Var("f"), Call("list", args)>>)),
                  FinishCall(k, IF args = <<>> THEN Call("apply", <<Var("g")>>)
                            ELSE Call("apply", <<Var("g"), args[1], Call("list", Tail(args))>>)),
                  \* two arguments spelled out before the list
                  FinishCall(k, IF Len(args) < 2 THEN Call("apply", <<Var("f"), Call("list", args)>>)
                            ELSE Call("apply", <<Var("f"), args[1], args[2], Call("list", SubSeq(args, 3, Len(args)))>>)),
                  \* internal definitions live in the frame of their call only: the top-level bindings of the same names are intact
                  Call("list", <<Var("helper"), Var("ev"), Var("p1"), Var("rest"), Var("all")>>)>>,
      tag |-> <<"core", k, n, r>>]
CoreFamily(maxn) ==
  UNION {UNION {UNION {UNION {
      {CoreProgram(k, n, r, vals, ex) : ex \in (IF r THEN Extras ELSE {<<>>})}
        : vals \in [1..n -> ArgDom]}
        : k \in {kk \in CoreKinds : Applicable(kk, n, r)}}
        : r \in BOOLEAN} : n \in 0..maxn}

----------------------------------------------------------------------------
(* C08: one faulting operation x calling context, with an effect before the fault in the same
   form and probe forms after it. *)
FaultKinds == {"NonProcedure", "ArityMany", "ArityFew", "ArityPrim", "ArityLit0", "ArityLit1", "UnboundRead", "UnboundAssign", "WrongType",
               "IndexRange", "ImmutableVector", "DivByZero"}
FaultExpr(k) ==
  CASE k = "NonProcedure"    -> App(Num(5), <<Num(1)>>)
    [] k = "ArityMany"       -> Call("one", <<Num(1), Num(2)>>)
    [] k = "ArityFew"        -> Call("one", <<>>)
    [] k = "ArityPrim"       -> Call("cons", <<Num(1)>>)
    \* a lambda expression applied on the spot (the shape begin/let bodies expand to) to the wrong number of arguments:
    \* its body - which has an effect - must not run
    [] k = "ArityLit0"       -> App(Fn(<<>>, <<Set("s", Num(100)), Num(1)>>), <<Num(5)>>)
    [] k = "ArityLit1"       -> App(Fn(<<"z">>, <<Set("s", Num(100)), Var("z")>>), <<>>)
    [] k = "UnboundRead"     -> Var("nope")
    [] k = "UnboundAssign"   -> Set("nope", Num(1))
    [] k = "WrongType"       -> Call("car", <<Num(5)>>)
    [] k = "IndexRange"      -> Call("vector-ref", <<Call("vector", <<Num(1), Num(2)>>), Num(2)>>)
    [] k = "ImmutableVector" -> Call("vector-set!", <<Quote([t |-> "vlit", xs |-> <<MkInt(1), MkInt(2)>>]), Num(0), Num(9)>>)
    [] k = "DivByZero"       -> Call("/", <<Num(1), Num(0)>>)
ExpectedKind(k) == IF k \in {"ArityMany", "ArityFew", "ArityPrim", "ArityLit0", "ArityLit1"} THEN "Arity"
                   ELSE IF k \in {"UnboundRead", "UnboundAssign"} THEN "Unbound" ELSE k
Bump == Set("s", Call("+", <<Var("s"), Num(1)>>))
FaultContexts == {"direct", "nontail", "tail", "tailif", "tailsame", "selftail", "apply", "map", "foreach", "foldl", "operand", "derived", "nested2"}
\* <<definitions needed, the faulting top-level form>>
InFaultContext(c, F) ==
  CASE c = "direct"  -> <<<<>>, Begin(<<Bump, F>>)>>
    [] c = "nontail" -> <<<<Define("g", Lam(<<>>, "", <<>>, <<Bump, F>>))>>, Call("+", <<Num(1), Call("g", <<>>)>>)>>
    [] c = "tail"    -> <<<<Define("h", Lam(<<>>, "", <<>>, <<Bump, F>>)), Define("g", Lam(<<>>, "", <<>>, <<Call("h", <<>>)>>))>>,
                          Call("g", <<>>)>>
    [] c = "tailif"  -> <<<<Define("h", Lam(<<"q">>, "", <<>>, <<Bump, If3(Var("q"), F, Num(0))>>)),
                            Define("g", Lam(<<>>, "", <<>>, <<Call("h", <<Num(1)>>)>>))>>, Call("g", <<>>)>>
    \* the tail call leaves a procedure whose parameter list is spelled exactly like the callee's (one: (z)); and a
    \* procedure that reaches the fault in a tail call from itself
    [] c = "tailsame" -> <<<<Define("h", Lam(<<"z">>, "", <<>>, <<Bump, F>>)), Define("g", Lam(<<"z">>, "", <<>>, <<Call("h", <<Var("z")>>)>>))>>,
                           Call("g", <<Num(1)>>)>>
    [] c = "selftail" -> <<<<Define("h", Lam(<<"z">>, "", <<>>, <<If3(Call("=", <<Var("z"), Num(0)>>), Begin(<<Bump, F>>),
                                                                      Call("h", <<Call("-", <<Var("z"), Num(1)>>)>>))>>))>>,
                           Call("h", <<Num(2)>>)>>
    [] c = "apply"   -> <<<<>>, Call("apply", <<Lam(<<"q">>, "", <<>>, <<Bump, F>>), Quote(MkList(<<MkInt(1)>>))>>)>>
    [] c = "map"     -> <<<<>>, Call("map", <<Lam(<<"q">>, "", <<>>, <<Bump, F>>), Quote(MkList(<<MkInt(1), MkInt(2)>>))>>)>>
    [] c = "foreach" -> <<<<>>, Call("for-each", <<Lam(<<"q">>, "", <<>>, <<Bump, F>>), Quote(MkList(<<MkInt(1), MkInt(2)>>))>>)>>
    [] c = "foldl"   -> <<<<>>, Call("fold-left", <<Lam(<<"q", "acc">>, "", <<>>, <<Bump, F>>), Num(0), Quote(MkList(<<MkInt(1), MkInt(2)>>))>>)>>
    [] c = "operand" -> <<<<>>, Call("list", <<Num(1), Begin(<<Bump, F>>)>>)>>
    [] c = "derived" -> <<<<>>, Let(<<B("q", Num(1))>>, <<CondElse(<<Clause(Lit(False), <<Num(0)>>)>>, <<Bump, When(Var("q"), <<F>>)>>)>>)>>
    [] c = "nested2" -> <<<<Define("h", Lam(<<>>, "", <<>>, <<Bump, F>>)), Define("g", Lam(<<>>, "", <<>>, <<Call("list", <<Call("h", <<>>)>>)>>))>>,
                          Call("car", <<Call("g", <<>>)>>)>>
FaultProgram(k, c, pre) ==
  LET x == InFaultContext(c, FaultExpr(k)) IN
  [forms |-> <<Define("s", Num(0)), Define("one", Fn(<<"z">>, <<Var("z")>>))>> \o x[1]
             \o [i \in 1..pre |-> Bump]
             \o <<x[2], Var("s"), Call("one", <<Num(7)>>), Bump, Var("s")>>,
   tag |-> <<"fault", k, c, pre>>]
FaultFamily == {FaultProgram(k, c, pre) : k \in FaultKinds, c \in FaultContexts, pre \in {0, 1}}

----------------------------------------------------------------------------
(* C02: loops whose recursive call sits in a tail context.  A context wraps the call; contexts
   compose.  Loop shapes: self, 2- and 3-way mutual, through a procedure parameter, variadic,
   closure-returned; the call itself is written directly or through apply. *)
TailContexts == <<"body", "ifa", "ifb", "begin", "let", "letstar", "condclause", "condelse", "condarrow",
                  "caseclause", "caseelse", "and", "or", "when", "unless">>
TailCtxSet == {TailContexts[i] : i \in DOMAIN TailContexts}
Wrap(c, e) ==
  CASE c = "body"       -> e
    [] c = "ifa"        -> If3(Lit(True), e, Num(-1))
    [] c = "ifb"        -> If3(Lit(False), Num(-1), e)
    [] c = "begin"      -> Begin(<<Num(0), e>>)
    [] c = "let"        -> Let(<<B("q", Num(1))>>, <<e>>)
    [] c = "letstar"    -> LetStar(<<B("q", Num(1)), B("r", Var("q"))>>, <<e>>)
    [] c = "condclause" -> Cond(<<Clause(Lit(False), <<Num(-1)>>), Clause(Lit(True), <<Num(0), e>>)>>)
    [] c = "condelse"   -> CondElse(<<Clause(Lit(False), <<Num(-1)>>)>>, <<e>>)
    [] c = "condarrow"  -> CondElse(<<ArrowClause(Num(1), Fn(<<"ignored">>, <<e>>))>>, <<Num(-1)>>)
    [] c = "caseclause" -> Case(Num(1), <<CClause(<<MkInt(0)>>, <<Num(-1)>>), CClause(<<MkInt(1), MkInt(2)>>, <<e>>)>>)
    [] c = "caseelse"   -> CaseElse(Num(1), <<CClause(<<MkInt(0)>>, <<Num(-1)>>)>>, <<e>>)
    [] c = "and"        -> And(<<Lit(True), Num(1), e>>)
    [] c = "or"         -> Or(<<Lit(False), e>>)
    [] c = "when"       -> When(Lit(True), <<Num(0), e>>)
    [] c = "unless"     -> Unless(Lit(False), <<e>>)
RECURSIVE WrapAll(_, _)
WrapAll(cs, e) == IF cs = <<>> THEN e ELSE Wrap(cs[1], WrapAll(Tail(cs), e))   \* cs[1] outermost

CtxSeqs(maxdepth) == UNION {[1..d -> TailCtxSet] : d \in 0..maxdepth}
TailShapes == {"self", "mutual2", "mutual3", "param", "variadic", "closure", "closurestate", "thunkarg"}

\* the call: direct or through apply
\* viaApply: 0 direct call, 1 (apply f (list a ...)), 2 (apply f a1 (list a2 ...)) - leading arguments before the list
MkCall(viaApply, f, args) ==
  CASE viaApply = 0 -> App(f, args)
    [] viaApply = 1 -> Call("apply", <<f, Call("list", args)>>)
    [] viaApply = 2 -> Call("apply", <<f, args[1], Call("list", Tail(args))>>)
\* abs = TRUE: the counter toggles between -1 and -2 and the accumulator stays put, so a loop that
\* never ends has finitely many machine states (the probe, which logs, is left out as well)
DecA(abs, i) == IF abs THEN If3(Call("=", <<Var(i), Num(-1)>>), Num(-2), Num(-1)) ELSE Call("-", <<Var(i), Num(1)>>)
IncA(abs, e) == IF abs THEN e ELSE Call("+", <<e, Num(1)>>)
Probe(site, i) == Call("probe!", <<Num(site), Var(i)>>)
\* one loop procedure: (lambda (i acc) (probe! site i) (if (= i 0) acc <call in context>))
LoopLam(abs, ps, rest, site, stop, accExpr, callExpr) ==
  Lam(ps, rest, <<>>, (IF abs THEN <<>> ELSE <<Probe(site, "i")>>) \o <<If3(stop, accExpr, callExpr)>>)
IsZero == Call("=", <<Var("i"), Num(0)>>)

\* forms defining the loop, and the expression that starts it with count n (an expression)
TailProgram(abs, shape, viaApply, cs, n) ==
  LET W(e) == WrapAll(cs, e)
      Dec(i) == DecA(abs, i)
      Inc(a) == IncA(abs, Var(a))
  IN
  CASE shape = "self" ->
         <<Define("loop", LoopLam(abs, <<"i", "acc">>, "", 1, IsZero, Var("acc"),
                                  W(MkCall(viaApply, Var("loop"), <<Dec("i"), Inc("acc")>>)))),
           Call("loop", <<n, Num(0)>>)>>
    [] shape = "mutual2" ->
         <<Define("ping", LoopLam(abs, <<"i", "acc">>, "", 1, IsZero, Var("acc"),
                                  W(MkCall(viaApply, Var("pong"), <<Dec("i"), Inc("acc")>>)))),
           Define("pong", LoopLam(abs, <<"i", "acc">>, "", 2, IsZero, Var("acc"),
                                  W(MkCall(viaApply, Var("ping"), <<Dec("i"), Inc("acc")>>)))),
           Call("ping", <<n, Num(0)>>)>>
    [] shape = "mutual3" ->
         <<Define("la", LoopLam(abs, <<"i", "acc">>, "", 1, IsZero, Var("acc"), W(MkCall(viaApply, Var("lb"), <<Dec("i"), Inc("acc")>>)))),
           Define("lb", LoopLam(abs, <<"i", "acc">>, "", 2, IsZero, Var("acc"), MkCall(0, Var("lc"), <<Dec("i"), Inc("acc")>>))),
           Define("lc", LoopLam(abs, <<"i", "acc">>, "", 3, IsZero, Var("acc"), W(MkCall(0, Var("la"), <<Dec("i"), Inc("acc")>>)))),
           Call("la", <<n, Num(0)>>)>>
    [] shape = "param" ->
         <<Define("loop", LoopLam(abs, <<"k", "i", "acc">>, "", 1, IsZero, Var("acc"),
                                  W(MkCall(viaApply, Var("k"), <<Var("k"), Dec("i"), Inc("acc")>>)))),
           Call("loop", <<Var("loop"), n, Num(0)>>)>>
    [] shape = "variadic" ->
         <<Define("loop", LoopLam(abs, <<"i">>, "more", 1, IsZero, Call("car", <<Var("more")>>),
                                  W(MkCall(viaApply, Var("loop"), <<Dec("i"), IncA(abs, Call("car", <<Var("more")>>)), Num(7)>>)))),
           Call("loop", <<n, Num(0)>>)>>
    [] shape = "closure" ->
         <<Define("make", Lam(<<"step">>, "", <<>>,
                    <<LoopLam(abs, <<"self", "i", "acc">>, "", 1, IsZero, Var("acc"),
                              W(MkCall(viaApply, Var("self"), <<Var("self"), Dec("i"), (IF abs THEN Var("acc") ELSE Call("+", <<Var("acc"), Var("step")>>))>>)))>>)),
           Define("lp", Call("make", <<Num(1)>>)),
           Call("lp", <<Var("lp"), n, Num(0)>>)>>
    \* every turn builds the closure that runs the next turn; the accumulator lives in the closure, so a turn that went on
    \* running the closure of an earlier turn would compute with a stale accumulator
    [] shape = "closurestate" ->
         <<Define("step", Lam(<<"acc">>, "", <<>>,
                    <<LoopLam(abs, <<"i">>, "", 1, IsZero, Var("acc"),
                              W(MkCall(viaApply, Call("step", <<Inc("acc")>>), <<Dec("i")>>)))>>)),
           App(Call("step", <<Num(0)>>), <<n>>)>>
    \* an operand of the tail call builds a closure over the caller's frame; the receiver drops it until the last turn,
    \* where it is called: it must still see the caller's i (= 1 at the last turn), and the frames of earlier turns are garbage
    [] shape = "thunkarg" ->
         <<Define("ping", LoopLam(abs, <<"i", "acc">>, "", 1, IsZero, Var("acc"),
                                  W(MkCall(viaApply, Var("pong"), <<Dec("i"), Inc("acc"), Fn(<<>>, <<Var("i")>>)>>)))),
           Define("pong", LoopLam(abs, <<"i", "acc", "k">>, "", 2, IsZero, Call("-", <<Call("+", <<Var("acc"), App(Var("k"), <<>>)>>), Num(1)>>),
                                  MkCall(0, Var("ping"), <<Var("i"), Var("acc")>>))),
           Call("ping", <<n, Num(0)>>)>>

\* terminating members (small N): the loop must return N
TailFinFamily(maxdepth, counts) ==
  {[forms |-> TailProgram(FALSE, sh, va, cs, Num(n)), tag |-> <<"tail", sh, va, cs, n>>] :
      sh \in TailShapes, va \in {0, 1, 2}, cs \in CtxSeqs(maxdepth), n \in counts}
\* non-terminating members (abstract counter): the reachable state space is the loop itself
TailInfFamily(maxdepth) ==
  {[forms |-> TailProgram(TRUE, sh, va, cs, Num(-1)), tag |-> <<"tailinf", sh, va, cs>>] :
      sh \in TailShapes, va \in {0, 1, 2}, cs \in CtxSeqs(maxdepth)}

----------------------------------------------------------------------------
(* C11: the list library applied to every small list (proper, improper, nested) and index *)
Elts == {MkInt(1), MkSym("a"), False, MkList(<<MkInt(2)>>)}
ProperLists(n) == UNION {{MkList(sq) : sq \in [1..k -> Elts]} : k \in 0..n}
ImproperLists == UNION {{ListFromSeq(sq, MkInt(9)) : sq \in [1..k -> {MkInt(1), MkSym("a")}]} : k \in 1..2}
ListVals == ProperLists(3) \cup ImproperLists \cup {MkInt(5)}
QV(v) == IF v.t \in {"int", "bool"} THEN Lit(v) ELSE Quote(v)
UnaryListProcs == {"car", "cdr", "caar", "cadr", "cdar", "cddr", "caaar", "caadr", "cadar", "caddr", "cdaar", "cdadr", "cddar", "cdddr",
                   "null?", "pair?", "list?", "last-pair"}
DeepLists == {MkList(<<MkList(<<MkList(<<MkInt(1), MkInt(2)>>), MkInt(3)>>), MkList(<<MkInt(4), MkInt(5)>>), MkInt(6)>>),
              MkList(<<MkList(<<MkInt(1)>>)>>), MkList(<<MkInt(1), MkList(<<MkInt(2), MkInt(3)>>), MkList(<<>>)>>)}
TickEach == Fn(<<"x">>, <<Call("tick!", <<Var("x"), Call("list", <<Var("x")>>)>>)>>)
TickFold == Fn(<<"x", "acc">>, <<Call("tick!", <<Var("x"), Call("cons", <<Var("x"), Var("acc")>>)>>)>>)
One(tag, e) == [forms |-> <<e>>, tag |-> <<"list", tag>>]
ListFamily(full) ==
  LET small == ProperLists(2)
      idx == -1..4
  IN   {One("unary", Call(p, <<QV(v)>>)) : p \in UnaryListProcs, v \in ListVals \cup DeepLists}
  \cup {One("append2", Call("append", <<QV(a), QV(b)>>)) : a \in small, b \in small \cup ImproperLists \cup {MkInt(5)}}
  \cup {One("append3", Call("append", <<QV(a), QV(b), QV(c)>>)) : a \in ProperLists(1), b \in ProperLists(1), c \in ProperLists(1) \cup {MkInt(5)}}
  \cup {One("append01", e) : e \in {Call("append", <<>>), Call("append", <<Quote(MkList(<<MkInt(1)>>))>>), Call("append", <<Num(5)>>),
                                     Call("append", <<Quote(ListFromSeq(<<MkInt(1)>>, MkInt(2))), Quote(MkList(<<MkInt(3)>>))>>)}}
  \cup {One("index", Call(p, <<QV(v), Num(k)>>)) : p \in {"list-tail", "list-ref"}, v \in (IF full THEN ListVals ELSE ProperLists(2) \cup ImproperLists \cup {MkInt(5)} \cup ProperLists(3)), k \in idx}
  \cup {One("mem", Call(p, <<QV(x), QV(v)>>)) : p \in {"memq", "memv"}, x \in {MkInt(1), MkSym("a"), False, MkInt(7)}, v \in ListVals}
  \cup {One("equal", Call("equal?", <<QV(a), QV(b)>>)) : a \in small \cup ImproperLists \cup {MkInt(5)}, b \in small \cup ImproperLists \cup {MkInt(5)}}
  \cup {One("cons", Call("cons", <<QV(a), QV(b)>>)) : a \in Elts, b \in ProperLists(1) \cup {MkInt(5)}}
  \cup {One("make-list", Call("make-list", <<Num(k), QV(x)>>)) : k \in -1..3, x \in {MkSym("a"), MkList(<<MkInt(1)>>)}}
  \cup {One("list", Call("list", [i \in 1..k |-> QV(MkInt(i))])) : k \in 0..3}
  \cup {One("map", Call(p, <<TickEach, QV(v)>>)) : p \in {"map", "for-each"}, v \in ProperLists(3) \cup ImproperLists}
  \cup {One("fold", Call(p, <<TickFold, Quote(MkList(<<MkSym("init")>>)), QV(v)>>)) : p \in {"fold-left", "fold-right"}, v \in ProperLists(3)}
  \cup {One("apply", e) : e \in {Call("apply", <<Var("list"), Num(1), Num(2), Quote(MkList(<<MkInt(3), MkInt(4)>>))>>),
                                  Call("apply", <<Var("car"), Quote(MkList(<<MkList(<<MkInt(1), MkInt(2)>>)>>))>>),
                                  Call("apply", <<Var("+"), Quote(MkList(<<MkInt(1), MkInt(2), MkInt(3)>>))>>),
                                  Call("apply", <<Var("list"), Quote(Nil)>>), Call("apply", <<Var("list")>>),
                                  Call("apply", <<TickFold, Num(1), Quote(MkList(<<MkList(<<>>)>>))>>),
                                  Call("apply", <<Var("map"), TickEach, Quote(MkList(<<MkList(<<MkInt(1), MkInt(2)>>)>>))>>),
                                  Call("apply", <<Var("apply"), Var("list"), Quote(MkList(<<MkInt(1), MkList(<<MkInt(2)>>)>>))>>)}}

----------------------------------------------------------------------------
(* C17: small program files: displays, newlines, definitions, uses of (possibly undefined) variables and
   faults - every sequence up to length 4 *)
CliForms == {Call("display", <<Num(1)>>), Call("newline", <<>>), Define("v", Num(42)), Call("display", <<Var("v")>>),
             Begin(<<Call("display", <<Num(7)>>), Call("car", <<Num(5)>>)>>), Call("display", <<Call("+", <<Num(20), Num(3)>>)>>)}
CliFamily == UNION {{[forms |-> fs, tag |-> <<"cli">>] : fs \in [1..n -> CliForms]} : n \in 1..4}
=============================================================================
