------------------------------ MODULE MCMacro ------------------------------
(* C04: every rule set of bounded size over a small alphabet against every use of bounded size.
   TLC checks laws of the matcher on each case and prints the expected outcome of (m args...) for
   replay through define-syntax and evaluation on the real interpreter. *)
EXTENDS Macro, Json, SequencesExt

CONSTANTS Mode,         \* "single": one-rule sets; "pairs": two-rule sets
          MaxPat,       \* maximal number of argument patterns before an optional final ellipsis
          MaxUse,       \* maximal number of arguments of the use
          Emitting      \* print one vector per case

\* two literal identifiers: patterns use lit; uses may write the other keyword kw where a rule has lit (it must not match)
Lits == {"lit", "kw"}
A == MkSym("a")   B == MkSym("b")   L == MkSym("lit")   Z == MkSym("z")   KW == MkSym("kw")
PatAtoms == {A, B, L, MkInt(1), Underscore, True}
SubAtoms == {A, B, L, MkInt(1)}
Vlit(s) == [t |-> "vlit", xs |-> s]
SubPatterns == {MkList(<<x>>) : x \in SubAtoms} \cup {MkList(<<x, y>>) : x \in SubAtoms, y \in SubAtoms}
               \cup {MkList(<<x, Ellipsis>>) : x \in {A, B}} \cup {Vlit(<<x, y>>) : x \in {A, MkInt(1)}, y \in {B, L}}
               \cup {MkList(<<>>)} \cup {MkList(<<MkList(<<x>>), y>>) : x \in {A}, y \in {B, L}}
PatElems == PatAtoms \cup SubPatterns
RECURSIVE VarOcc(_)
VarOcc(p) == IF IsSym(p) THEN (IF p.x \in {"a", "b"} THEN <<p.x>> ELSE <<>>)
             ELSE IF p.t = "pair" THEN VarOcc(p.a) \o VarOcc(p.d)
             ELSE IF p.t = "vlit" THEN (LET RECURSIVE E(_) E(i) == IF i > Len(p.xs) THEN <<>> ELSE VarOcc(p.xs[i]) \o E(i + 1) IN E(1))
             ELSE <<>>
RECURSIVE ContainsEllipsis(_)
ContainsEllipsis(p) == p = Ellipsis \/ (p.t = "pair" /\ (ContainsEllipsis(p.a) \/ ContainsEllipsis(p.d)))
                       \/ (p.t = "vlit" /\ \E i \in DOMAIN p.xs : ContainsEllipsis(p.xs[i]))
DistinctVars(ps) == LET o == VarOcc(MkList(ps)) IN \A i, j \in DOMAIN o : i # j => o[i] # o[j]
Base == UNION {[1..n -> PatElems] : n \in 0..MaxPat}
ArgPatterns == {ps \in Base : DistinctVars(ps)}
               \cup {ps \o <<Ellipsis>> : ps \in {q \in Base : q # <<>> /\ DistinctVars(q) /\ ~ContainsEllipsis(q[Len(q)]) /\ q[Len(q)] # Underscore}}

\* for two-rule sets: patterns without sub-patterns (rule order and overlap are what matters there)
FlatPatterns == {ps \in ArgPatterns : \A i \in DOMAIN ps : ps[i] \in PatAtoms \cup {Ellipsis}}
\* variables bound under an ellipsis / bound once
RECURSIVE ManyVars(_, _)
ManyVars(ps, under) ==     \* ps a sequence of patterns
  IF ps = <<>> THEN {}
  ELSE LET here == IF HasEllipsis(ps) THEN {VarOcc(ps[Len(ps) - 1])[i] : i \in DOMAIN VarOcc(ps[Len(ps) - 1])} ELSE {}
           inner == UNION {IF ps[i].t \in {"pair", "nil"} THEN ManyVars(Elems(ps[i]), under)
                           ELSE IF ps[i].t = "vlit" THEN ManyVars(ps[i].xs, under) ELSE {} : i \in DOMAIN ps}
       IN here \cup inner
AllVars(ps) == {VarOcc(MkList(ps))[i] : i \in DOMAIN VarOcc(MkList(ps))}
K == MkSym("k")
\* three templates per pattern
Templates(ps) ==
  LET many == ManyVars(ps, FALSE)
      ones == AllVars(ps) \ many
      os == SetToSortSeq(ones, LAMBDA x, y : x = "a")
      ms == SetToSortSeq(many, LAMBDA x, y : x = "a")
      RECURSIVE Rep(_) Rep(s) == IF s = <<>> THEN <<>> ELSE <<MkSym(s[1]), Ellipsis>> \o Rep(Tail(s))
      RECURSIVE RepList(_) RepList(s) == IF s = <<>> THEN <<>> ELSE <<MkList(<<K, L, MkSym(s[1])>>), Ellipsis>> \o RepList(Tail(s))      \* (k lit v) ...: constants, one of them the literal identifier
      OneSyms == [i \in DOMAIN os |-> MkSym(os[i])]
      \* identifiers the pattern does not bind are constants of the template, whatever another rule calls its variables
      fs == SetToSortSeq({"a", "b"} \ AllVars(ps), LAMBDA x, y : x = "a")
      FreeSyms == [i \in DOMAIN fs |-> MkSym(fs[i])]
  IN {MkList(OneSyms \o Rep(ms)),                                   \* every variable, in order
      MkList(<<K>> \o FreeSyms \o Rep(ms) \o Reverse(OneSyms) \o OneSyms),         \* constants, reversed, duplicated
      MkList(<<Vlit(OneSyms \o <<K>>)>> \o RepList(ms) \o <<MkList(OneSyms)>>)}   \* nested: vector, list sub-template under the ellipsis

UseAtoms == {MkInt(1), MkInt(2), L, Z, KW, True}
UseElems == UseAtoms \cup {MkList(<<MkInt(1)>>), MkList(<<MkInt(1), MkInt(2)>>), MkList(<<L, MkInt(1)>>), MkList(<<>>), Vlit(<<MkInt(1), L>>),
                          MkList(<<MkList(<<MkInt(2)>>), L>>), MkList(<<KW, MkInt(1)>>)}
\* two-rule sets have flat patterns: at use length 3 their uses draw on the atoms and two compound data
PairUseElems == (UseAtoms \ {MkInt(2)}) \cup {MkList(<<MkInt(1)>>), MkList(<<KW, MkInt(1)>>)}
Uses == UNION {[1..n -> (IF Mode = "pairs" /\ MaxUse >= 3 THEN PairUseElems ELSE UseElems)] : n \in 0..MaxUse}

Rule(ps, t) == [pat |-> ps, tmpl |-> t]
VARIABLES rules, args, phase
Init == /\ phase = 0 /\ args \in Uses
        /\ IF Mode = "single"
           THEN \E ps \in ArgPatterns : \E t \in Templates(ps) : rules = <<Rule(ps, t)>>
           ELSE \E p1 \in FlatPatterns, p2 \in FlatPatterns :
                   /\ Len(p1) = Len(p2) \/ HasEllipsis(p1) \/ HasEllipsis(p2)        \* rule sets that can overlap
                   /\ \E t1 \in Templates(p1) : \E t2 \in Templates(p2) : rules = <<Rule(p1, t1), Rule(p2, t2)>>
Next == phase = 0 /\ phase' = 1 /\ UNCHANGED <<rules, args>>

Res == Transform(rules, args, Lits)
\* ---- laws of the matcher (R7RS 4.3.2) checked on every case
Laws == phase = 1 =>
  /\ (Res.k = "ok" => /\ MatchList(rules[Res.rule].pat, args, Lits).ok                       \* the selected rule matches ...
                      /\ \A j \in 1..(Res.rule - 1) : ~MatchList(rules[j].pat, args, Lits).ok) \* ... and is the first that does
  /\ (Res.k = "nomatch" => \A j \in DOMAIN rules : ~MatchList(rules[j].pat, args, Lits).ok)
  \* a pattern made only of variables and _ of the right length matches anything
  /\ \A j \in DOMAIN rules :
        (~HasEllipsis(rules[j].pat) /\ Len(rules[j].pat) = Len(args) /\ \A i \in DOMAIN rules[j].pat : rules[j].pat[i] \in {A, B, Underscore})
          => MatchList(rules[j].pat, args, Lits).ok
  \* a literal identifier / datum in the pattern forces the same datum in the use
  /\ \A j \in DOMAIN rules : \A i \in DOMAIN rules[j].pat :
        (MatchList(rules[j].pat, args, Lits).ok /\ ~HasEllipsis(rules[j].pat) /\ rules[j].pat[i] \in {L, MkInt(1), True})
          => args[i] = rules[j].pat[i]
  \* the first template reproduces, in order, what the variables matched
  /\ TRUE
Emit == (phase = 1 /\ Emitting) => PrintT(<<"VEC", ToJson([rules |-> rules, args |-> args, res |-> Res])>>)
=============================================================================
