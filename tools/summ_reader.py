import json,re,glob,collections,sys
c=collections.Counter(); ex={}
for f in glob.glob('/verif/work/%s/*.rt*.tlc.out' % sys.argv[1]):
    for line in open(f):
        if line.startswith('<<"MISMATCH"'):
            m=re.match(r'^<<"MISMATCH", (".*")>>',line)
            d=json.loads(json.loads(m.group(1)))
            text="".join(chr(x) for x in d["text"])
            key=(d["why"][:10], d["spec"]["k"], d["lex"].get("k"), d["lex"].get("site","")[-25:], d["read"].get("k"), str(d["read"].get("kind",""))[-30:])
            c[key]+=1
            ex.setdefault(key,[])
            if len(ex[key])<6: ex[key].append(text)
for k,v in sorted(c.items(), key=lambda x:-x[1])[:40]:
    print(v,k, ex[k])
