#!/bin/sh
# tools/recheck_all_alt.sh : development aid - re-run every seeded change against its property's quick check, three streams in
# parallel (by property), each with its own scratch work directory and scratch worktree; /repo is not touched
cd /verif
run() { for n in $(ls seeded | grep -v benign | grep -E "^($1)-"); do ALT_WORK=/tmp/work-altm$2 python3 tools/recheck_alt.py $n 2>&1 | tail -1 | cut -c1-220; done; }
run "C01|C04|C07|C10|C13|C16|C19" 1 > /tmp/recheck_alt1.log 2>&1 &
run "C02|C05|C08|C11|C14|C17" 2 > /tmp/recheck_alt2.log 2>&1 &
run "C03|C06|C09|C12|C15|C18" 3 > /tmp/recheck_alt3.log 2>&1 &
wait
