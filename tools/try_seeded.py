#!/usr/bin/env python3
# tools/try_seeded.py <agent-worktree> <PROP> <name> [--keep-agent-dir] [--tier quick]
# 1. confirms the seeded change independently in a scratch worktree (tests pass with it, the
#    demonstration fails with it and passes without it);
# 2. applies it to /repo, runs the property's check, undoes it;
# 3. records it under /verif/seeded/<name>/.
import sys, os, subprocess, json, shutil, glob, time
agent, prop, name = sys.argv[1], sys.argv[2], sys.argv[3]
others = [a for a in sys.argv[4:] if not a.startswith("--")]
checks = [prop] + others          # additional properties whose checks should be run too
mut = os.path.join(agent, "mutant")
patch = os.path.join(mut, "patch.diff")
env = dict(os.environ, CARGO_NET_OFFLINE="true", CARGO_TARGET_DIR="/tmp/mutv/target")
def sh(cmd, cwd=None, timeout=3600):
    p = subprocess.run(cmd, shell=True, cwd=cwd, env=env, stdout=subprocess.PIPE, stderr=subprocess.STDOUT, text=True, timeout=timeout)
    return p.returncode, p.stdout
W = "/tmp/mutv/" + name
os.makedirs("/tmp/mutv", exist_ok=True)
sh("git -C /repo worktree remove --force %s" % W)
rc, out = sh("git -C /repo worktree add --detach %s HEAD" % W)
assert rc == 0, out
report = {"property": prop, "name": name, "ran": []}
try:
    demo_rs = os.path.join(mut, "demo_test.rs")
    demo_sh = os.path.join(mut, "demo.sh")
    def run_demo():
        if os.path.exists(demo_rs):
            shutil.copy(demo_rs, os.path.join(W, "tests", "demo_test.rs"))
            rc, out = sh("cargo test --offline --test demo_test 2>&1 | tail -15", cwd=W)
            ok = "test result: ok" in out
            os.remove(os.path.join(W, "tests", "demo_test.rs"))
            return ok, out[-800:]
        elif os.path.exists(demo_sh):
            for f in glob.glob(os.path.join(mut, "*")):
                if not f.endswith("patch.diff"):
                    if os.path.isdir(f):
                        shutil.copytree(f, os.path.join(W, "mutant", os.path.basename(f)), dirs_exist_ok=True)
                    else:
                        os.makedirs(os.path.join(W, "mutant"), exist_ok=True); shutil.copy(f, os.path.join(W, "mutant"))
            txt = open(demo_sh).read().replace(agent, W)
            open(os.path.join(W, "mutant", "demo.sh"), "w").write(txt)
            e2 = dict(env); e2.pop("CARGO_TARGET_DIR", None)
            p = subprocess.run("bash -c 'set -o pipefail; bash mutant/demo.sh 2>&1 | tail -15'", shell=True, cwd=W, env=e2,
                               stdout=subprocess.PIPE, stderr=subprocess.STDOUT, text=True, timeout=3600)
            rc, out = p.returncode, p.stdout
            return rc == 0, out[-800:]
        return None, "no demonstration found"
    ok0, o0 = run_demo()
    report["ran"].append({"demo on unchanged sources passes": ok0})
    rc, out = sh("git apply %s" % patch, cwd=W)
    assert rc == 0, "patch does not apply: " + out
    rc, out = sh("cargo test --offline 2>&1 | grep -E '^test result|FAILED|panicked|error' | head -20", cwd=W)
    tests_ok = "FAILED" not in out and "error" not in out and out.count("test result: ok") >= 4
    report["ran"].append({"cargo test --offline with the change passes": tests_ok, "summary": out[-600:]})
    ok1, o1 = run_demo()
    report["ran"].append({"demo with the change fails": (ok1 is False), "tail": o1[-400:]})
    confirmed = bool(ok0) and tests_ok and (ok1 is False)
    report["confirmed"] = confirmed
    print("confirmed:", confirmed, "| demo-unchanged-passes:", ok0, "| tests-pass-with-change:", tests_ok, "| demo-fails-with-change:", ok1 is False)
    if not confirmed:
        print(o0[-500:]); print(out[-500:]); print(o1[-500:])
finally:
    if "--alt" not in sys.argv:
        sh("git -C /repo worktree remove --force %s" % W)
ALT = "--alt" in sys.argv        # development aid: run the check against the scratch worktree (when /repo is busy)
if report.get("confirmed"):
    # run the check(s) against /repo with the change applied
    if not ALT:
        rc, out = sh("git -C /repo status --porcelain")
        assert out.strip() == "", "/repo is not clean"
        rc, out = sh("git -C /repo apply %s" % patch)
        assert rc == 0, out
    try:
        report["checks"] = {}
        for c in checks:
            t = time.time()
            cenv = {k: v for k, v in os.environ.items() if k not in ("CARGO_TARGET_DIR", "RUSTFLAGS")}
            if ALT:
                cenv.update(VERIF_REPO=W, VERIF_WORK="/tmp/work-altm", VERIF_EVIDENCE="/tmp/ev-altm")
            p = subprocess.run("./check %s quick" % c, shell=True, cwd="/verif", env=cenv, stdout=subprocess.PIPE, stderr=subprocess.STDOUT, text=True)
            rc, out = p.returncode, p.stdout
            nv = out.count("VIOLATION property=")
            report["checks"][c] = {"exit": rc, "violation_lines": nv, "wall_s": round(time.time() - t), "first": [l for l in out.splitlines() if "what:" in l][:2]}
            print("check %s quick -> exit %d, %d VIOLATION lines (%.0fs)" % (c, rc, nv, time.time() - t))
            if rc not in (0, 1):
                print(out[-1500:])
    finally:
        if ALT:
            sh("git -C /repo worktree remove --force %s" % W)
        else:
            sh("git -C /repo checkout -- . && git -C /repo clean -fdq src tests")
    d = os.path.join("/verif/seeded", name)
    os.makedirs(d, exist_ok=True)
    shutil.copy(patch, d)
    for f in glob.glob(os.path.join(mut, "*")):
        if os.path.isfile(f) and not f.endswith("patch.diff") and not f.endswith("meta.json"):
            shutil.copy(f, d)
    meta = {}
    try:
        meta = json.load(open(os.path.join(mut, "meta.json")))
    except Exception:
        pass
    meta["verification"] = report
    meta["detected_by"] = {c: (r["exit"] == 1) for c, r in report["checks"].items()}
    json.dump(meta, open(os.path.join(d, "meta.json"), "w"), indent=1)
if "--keep-agent-dir" not in sys.argv and report.get("confirmed"):
    sh("git -C /repo worktree remove --force %s" % agent)
    sh("git -C /repo worktree prune")
