#!/usr/bin/env python3
# Regenerates /verif/MANIFEST.json from the table below (single source of truth for what is claimed).
import json, os
V = os.path.dirname(os.path.dirname(os.path.abspath(__file__)))
props = [json.loads(l) for l in open(os.path.join(V, "properties.jsonl"))]

CLAIMED = {
 "C12": dict(
   text="TLC enumerates every admissible import declaration of the bounded universe from ImportSet.tla (R7RS algebra; laws checked as invariants, a deliberately broken sequential-rename model must be rejected); each is replayed on fresh interpreters in several processes and the resulting environment (names and values) compared with Apply; random deeper declarations are recorded from the real interpreter and validated by TLC against ImportSetTrace.tla.",
   note="Trusted: the harness projection (environment dump, exports are distinguishable integers), the renderer of terms to (import ...) text. Bound: depth<=2 exhaustive (quick 3 exports, thorough 4), random terms to depth 5.",
   technique="TLA+ spec + TLC exhaustive enumeration, replay into the implementation, TLC trace validation",
   ref="DESIGN.md section 5, C12"),
 "C14": dict(
   text="Loader.tla models the loader as a state machine (one action per critical section of eval_import_set/get_library/eval_library_definition). TLC checks on every graph of 3 libraries x node kinds x attempt history that no in-progress mark survives an attempt, that each outcome equals the declarative DFS outcome (hence is history-independent), bounded nesting, and termination as a liveness property under fairness; the model with the implementation's original failure path must be rejected. Every explored history is replayed on the real interpreter (registered sources, and files in a directory other than the cwd), comparing outcome and the loader-state hook after each attempt; random larger graphs/histories are recorded and validated by TLC against LoaderTrace.tla, which re-takes the spec's actions and evaluates its invariants at every step.",
   note="Trusted: rendering of a graph to library sources/files (a faulting body is (car N)), the error-kind projection, hook H2 (read-only). Where the statement does not order competing errors (cycle and failing library both reachable) any of them is accepted. Bound: 3 libraries exhaustive (<=1 faulty node quick), histories <=2 (quick) / 3 (thorough); random graphs to 6 libraries, 6 attempts.",
   technique="TLA+ state machine + TLC safety and liveness checking, replay of all explored histories, TLC trace validation",
   ref="DESIGN.md section 5, C14"),
 "C04": dict(
   text="Macro.tla specifies syntax-rules matching and template filling as pure functions (PMatch/MatchList: variables and _ match anything, literal identifiers only themselves, literal data only equal data, lists and vectors element-wise, a final ellipsis a run of one or more items; Expand: variables replaced, each ellipsis sub-template repeated once per matched item in order; Transform: least matching rule index or nomatch). MCMacro.tla enumerates every one-rule set over a pattern alphabet (2 variables, _, a literal identifier, data 1 and #t, nested lists/vectors, optional final ellipsis; 3 templates per pattern) against every use of up to 3 elements, and every ordered pair of flat rules; TLC checks independent laws (first-match minimality, literal/datum discrimination, length relations of ellipsis runs, template size) and prints each case. Every case is replayed on the real interpreter: define-syntax with quoted templates, then (m args...), compared on value / syntax error. Random larger rule sets (up to 6 rules, nesting 4, strings/chars, two literals) with uses derived from their own patterns and single mutations are recorded and judged by TLC against MacroTrace.tla.",
   note="Trusted: datum renderer, value projection. Only the expander's supported class (see the property's quantifier) is generated. Hygiene (renaming of template-introduced identifiers) is not part of the property and not modelled.",
   technique="TLA+ functional specification of the matcher/expander + TLC exhaustive enumeration with laws, replay of every case, TLC trace validation of random rule sets",
   ref="DESIGN.md section 5, C04"),
 "C05": dict(
   text="Machine.tla gives every derived form a direct R7RS rule (not the bundled macro text). TLC runs every program of Programs!DerivedFamily (each form x truth assignment x context incl. binders of the names the bundled rules introduce, and every ordered pair nested in every sub-form position) on the machine, checks at-most-once evaluation, absence of errors, bounded continuation, and an independent statement of R7RS 4.2 for each un-nested form (SingleLaw), and prints per-form value and tick sequence; every program is replayed on the real interpreter. Seeded random nestings (depth 4, inside procedures) are recorded from the interpreter and validated by TLC against MachineTrace.tla.",
   note="Trusted: renderer AST->text, value/error projection, the host procedure tick!. Operand/initialiser order is not compared (at most one effectful operand). Core keywords are treated as reserved words. One known finding (atom-key capture in case).",
   technique="TLA+ abstract machine + TLC exhaustive family, replay into the implementation, TLC trace validation of random programs",
   ref="DESIGN.md section 5, C05"),
 "C01": dict(
   text="TLC runs every program of Programs!CoreFamily on the reference machine Machine.tla (procedure shapes with 0..3 fixed parameters with/without rest parameter x body kinds x every argument tuple over {0,2,#f}), each called through four spellings (direct, rest-parameter wrapper with car/cdr or apply, twice through apply); SpellingLaw (all spellings agree) is an invariant. Every program is replayed on the real interpreter in both define spellings, compared per top-level form on value/error kind and ticks. Seeded type-directed random programs (closures to order 3, rest parameters, internal definitions, recursion on a counter, apply, map) are recorded and validated by TLC against MachineTrace.tla.",
   note="Trusted: renderer, projection, tick!. Operand evaluation order is not observed (at most one effectful operand). Small integers only (overflow is C09).",
   technique="TLA+ abstract machine + TLC exhaustive family with spelling-equivalence invariant, replay, TLC trace validation",
   ref="DESIGN.md section 5, C01"),
 "C02": dict(
   text="MC 1: for every composition of 15 tail contexts (depth<=1 quick, <=2 thorough) x 8 loop shapes (incl. a closure built per turn and a closure over the caller's frame passed as an operand) x direct/apply call, the NON-TERMINATING loop with an abstract counter has a finite reachable state graph on Machine.tla (abstract GC) and Len(kont)<=4 in every state - bounded continuation for all iteration counts; a machine that keeps a frame for an if arm must be rejected. MC 2: the terminating members return N (TailResultLaw) and TLC prints the abstract continuation depth at every probe. Replay: every member at N=0,1,3 with rule R-space (same probe site + equal abstract continuation => native stack address within 1 KiB and live heap within 4 KiB from the second visit on), and at N=1e5 (result = N, stack spread <= 16 KiB, heap spread <= 64 KiB).",
   note="The absolute stack/heap figures are observations of the harness (address of a local in a host procedure, per-thread counting allocator minus the harness's own logs) tied to the specification by R-space; slacks are >=100x below one frame per iteration. Non-termination and deep non-tail recursion are outside the claim.",
   technique="TLA+ abstract machine with abstract GC: TLC finite-graph check of non-terminating loops; replay with resource refinement rule",
   ref="DESIGN.md section 5, C02"),
 "C08": dict(
   text="TLC runs Programs!FaultFamily (10 faulting operations x 11 calling contexts - direct, non-tail, tail, tail under if, apply, map/for-each/fold-left callbacks, operand, inside derived forms, nested - x position) on Machine.tla; FaultLaw (the form stops with the corresponding error kind, the probe after it sees exactly the effects completed before, later forms run normally) is an invariant; every program is replayed form by form. Valid random programs with one injected fault in a sequenced position are recorded and validated by TLC against MachineTrace.tla.",
   note="Error kinds are compared as classes (UnboundedSymbol, TypeMisMatch(Procedure), TypeMisMatch(other), ArgumentMissMatch, DivisionByZero, VectorIndexOutOfBounds, RequiresMutable); message texts are not compared.",
   technique="TLA+ abstract machine + TLC exhaustive fault family with invariant, replay, TLC trace validation",
   ref="DESIGN.md section 5, C08"),
 "C03": dict(
   text="Store.tla is an abstract model of mutable state (bindings with identity shared by closures, vector objects with identity, aliases through variables, parameters, lists, vectors of vectors and capturing closures; literals immutable) whose actions are whole operations. MCStore.tla performs every operation of every history up to length 4 on the reference machine and checks the refinement invariant (operation value, contents of every vector variable, alias partition); machines that define on set! or copy a vector bound to a parameter must be rejected. Every history (and TLC -simulate walks of 40 operations) is replayed on the real interpreter with a probe after each step comparing contents and Rc-identity alias classes; random 20-60 step histories with arbitrary surrounding expressions are validated by TLC against MachineTrace.tla incl. alias structure.",
   note="Trusted: renderer, projection incl. alias ids by Rc pointer identity. Pool: 2 counters, 1 shared pair, 2-3 vector variables, 1 container, 1 capturing closure; history length 4 exhaustive, 40 by simulation, 60 random.",
   technique="TLA+ abstract store model + refinement to the abstract machine checked by TLC, replay of all histories, TLC trace validation",
   ref="DESIGN.md section 5, C03"),
 "C09": dict(
   text="NumbersX.tla defines the numeric tower over BigInt rationals and an exact IEEE-754 binary32 model (Binary32.tla: decode to dyadic rationals, operate exactly, round once to nearest-even with overflow, subnormals and signed zero). TLC checks the laws of this oracle on the 65-number grid of MCNumbers.tla (field identities, n = d q + r, floor/ceiling bounds, total order, contagion, decimal-literal rounding) and prints the grid, whose entries are source expressions so the implementation builds every internal representation itself. Every unary and binary arithmetic case over the grid, sampled 3-operand folds and random operand tuples are executed on the real interpreter and each recorded application is judged by NumbersX!Verdict inside TLC (NumbersTrace.tla): always exact for operands below 2^15, never a wrong exact number for any operand, exact-zero division an error, correctly rounded binary32 result when an operand is inexact.",
   note="Trusted: value projection (Number variant and components, binary32 bit fields). Operands reach the specification as the implementation holds them. A ratio with a component above 2^24 may be converted to binary32 in one step or component-wise; sqrt/exp/log/trigonometry are not specified. The oracle itself is cross-checked against numpy.float32 in setup.",
   technique="TLA+ specification of exact and binary32 arithmetic (BigInt), laws checked by TLC, TLC trace validation of every recorded operation",
   ref="DESIGN.md section 5, C09"),
 "C10": dict(
   text="Same oracle as C09 (NumbersX.tla): = < > <= >= as conjunction of adjacent pairs under the mathematical order (exact operands by BigInt cross-multiplication, an exact operand converted to binary32 when compared with an inexact one), max/min numerically extreme and inexact iff an argument is inexact, eqv? true iff same exactness and numerically equal. TLC checks totality/antisymmetry/transitivity of the order on the grid; every predicate over all grid pairs (every internal representation against every other, including values produced by arithmetic), sampled triples and random tuples of length 2-5 are executed on the interpreter and judged by NumbersX!Verdict in TLC.",
   note="Trusted: value projection. eqv? of +0.0 and -0.0, and comparisons involving NaN inside max/min, are not constrained.",
   technique="TLA+ specification of the numeric order (BigInt, binary32), laws checked by TLC, TLC trace validation of every recorded comparison",
   ref="DESIGN.md section 5, C10"),
 "C11": dict(
   text="The list procedures are defined in Machine.tla on the data (R7RS 6.4; folds with the minischeme argument order; higher-order ones as machine continuations that call the procedure argument once per element in order) - not by interpreting base.sld. TLC runs Programs!ListFamily (every procedure on every proper/improper/nested list of length <= 3 over 4 element kinds, every index -1..4, ticking procedure arguments, apply forms) and checks ListLaw on the machine's results (append concatenates and shares its last argument, list-ref/list-tail consistency and error on short lists, call order of map/for-each/fold-left/fold-right, memq/memv return the first matching suffix). Every call is replayed on the interpreter; random arguments (length 12, nesting 3) and random compositions of library calls are validated by TLC against MachineTrace.tla.",
   note="Trusted: renderer, projection, tick!. Outside the procedures' domains (folds over improper lists, apply with an improper last argument, eq?/eqv? on pairs) nothing is demanded.",
   technique="TLA+ abstract machine with direct list-library semantics, TLC exhaustive small-scope family with algebraic-law invariant, replay, TLC trace validation",
   ref="DESIGN.md section 5, C11"),
 "C06": dict(
   text="Lexer.tla states the lexical grammar as 'split the text at delimiters; each piece is exactly one token or an error' (not the per-class scanners), Reader.tla builds data from tokens (dotted tails, vectors, quote abbreviation, number values; decimals through the exact binary32 model). TLC checks layout invariance on the specification (MCLexer: every pair of 36 token spellings x 6 separators: same two tokens for any white space/comment, and without separator a split exactly at delimiters) and prints the texts. Those texts, every string up to length 4 (5 thorough) over a 16-character alphabet, and random datum trees with random layout are put through the real Lexer and through eval of the quoted text; ReaderTrace.tla compares tokens and datum (and, for rendered trees, that the specification reads the text back as the tree it was rendered from).",
   note="Trusted: token/value projection. Decimals must read as one of the two binary32 neighbours. Spellings outside the supported grammar are Unsupported (only C07 applies). One known finding (boolean literal followed by a non-delimiter, pinned by the test suite).",
   technique="TLA+ lexer/reader specification, TLC law checking, TLC trace validation of the real lexer and reader on exhaustive short texts and random trees",
   ref="DESIGN.md section 5, C06"),
 "C16": dict(
   text="Printer.tla defines the external representation (single spaces, dotted tail only when improper) over the Reader's data; TLC checks Read(Print(v)) = v (hence injectivity) for every value tree of a bounded universe (15 atoms incl. boundary integers, ratios of both signs, characters, peculiar symbols; depth <= 2). Every value is built in the real interpreter, display's text is compared with Print(v) and read back. Random value trees (depth <= 5, width <= 6) over boundary integers, ratios produced by arithmetic, every binary32 class (random bit patterns, subnormals, powers of ten) are printed and read back by the implementation, and PrinterTrace.tla checks: the specification's reader maps the text to the value (reals: faithfully rounded), the value read back equals the original including exactness, the layout rules, dotted tails exactly where improper, and injectivity.",
   note="Trusted: value projection, format!(\"{}\") as what display writes. Strings, non-finite reals and symbols needing bars are excluded by the property.",
   technique="TLA+ printer/reader specification with round-trip law checked by TLC, replay, TLC trace validation of the real printer and reader",
   ref="DESIGN.md section 5, C16"),
 "C07": dict(
   text="The specification's share: MCTotal.tla shows the reader pipeline of the specification (Lexer, Reader) total on every string up to length 4 (5 thorough) over a 20-character alphabet, so 'a value or a reported error' is well-defined for every text; CrashTrace.tla judges every recorded evaluation: the input ends in a value or a reported error, the sanity form evaluated next on the same interpreter yields 3, and the same holds for the input alone on a fresh interpreter. Inputs: all 168421 short strings, token soups over keywords/builtins/boundary literals with balanced and unbalanced parentheses, token-level mutations of generated programs, of examples/*.scm and of the bundled .sld sources, random Unicode/control characters, and invalid-UTF-8 / truncated program and library files through eval_file and the built binary.",
   note="'Did not panic / abort' is an observation of the harness (catch_unwind, exit status, signals), not something a specification decides; the specification supplies the input universes' totality and the verdict. Native stack exhaustion, non-termination (4 s watchdog) and memory exhaustion are outside the claim: skipped, never violations.",
   technique="TLA+ totality check of the reader specification by TLC; TLC trace validation of recorded robustness runs",
   ref="DESIGN.md section 5, C07"),
 "C18": dict(
   text="Repl.tla models the loop over input lines (pending text, submissions); 'closed' is defined through the specification's reader (the text lexes and its nesting depth is <= 0). TLC checks on the specification that a form is submitted exactly with its last line for every split inside lists (MCRepl; the model checker showed that a break at depth 0, e.g. after a quote mark, ends a submission by the statement itself). The REPL's own completeness test (hook H1) is swept over every string up to length 5 (6 thorough) over the alphabet ( ) \" ; newline # \\ | a space and judged by ReplTrace.tla. Random form sequences incl. failing forms are fed to the built binary over a pipe under 3 random line splittings (comments with parentheses and quotes at line ends, empty lines); ReplTrace.tla re-runs Repl.tla on the lines (submission boundaries, tokens of each submission) and compares stdout/stderr with the transcript of the same forms evaluated one after another through the library interface.",
   note="Trusted: pipe driver (banner and farewell stripped, stdout and stderr compared separately), format!/error Display as the printed forms. Sessions are kept small (forms <= 160 characters) because the trace specification re-lexes the pending text at every line. Strings and |identifiers| that span a line break INSIDE an open list are exercised; an unterminated string or |identifier| at nesting depth 0 at a line break is outside the claim.",
   technique="TLA+ REPL state machine over the reader specification, TLC law checking, TLC trace validation of the hook sweep and of binary sessions",
   ref="DESIGN.md section 5, C18"),
 "C17": dict(
   text="Cli.tla states the driver's contract: standard output, exit status and the single diagnostic FILE[:LINE:COL] MESSAGE as functions of the per-form outcomes. TLC runs every program of Programs!CliFamily (<= 4 forms: display, newline, definition, use of a possibly undefined variable, a fault after output) on Machine.tla with stop-at-first-failure and checks CliLaw; each is written as a file (LF/CRLF, with/without final newline) and run through the built binary from another working directory, and CliTrace.tla checks the process observables against the machine's outcomes. Missing, directory and non-UTF-8 files must give a diagnostic naming the file and a non-zero status. Random displaying programs (with an optional injected fault, multi-line layout, a library file next to the program) are compared by CliTrace.tla with the same forms evaluated one by one through the library interface with captured output.",
   note="Trusted: process driver (ANSI stripped, exit compared as zero/non-zero), fd-1 capture in the harness. LINE:COL values are checked for presence and shape only (C15 owns them).",
   technique="TLA+ CLI contract + abstract machine, TLC exhaustive small programs, TLC trace validation of binary runs",
   ref="DESIGN.md section 5, C17"),
 "C19": dict(
   text="MCInterp.tla composes two instances of the reference machine, every variable indexed by the instance (frames, vectors, and the table of user-defined syntax), with no action of one instance mentioning the other. TLC explores every interleaving of two programs of <= 2 (3 thorough) forms over colliding names (define, set!, read, define-syntax of m and of cond, uses of both, a failing form) and checks non-interference (each instance's results equal those of its program alone, also as a prefix at every point); the model with one shared syntax table - the implementation as found - must be rejected. Every interleaving is replayed on two Interpreter values on one thread, with a third instance created, used and dropped at every point. Random program pairs from the C01/C05/C03 generators with macro definitions run under random interleavings, and each instance's recorded results are validated by MachineTrace.tla against the machine running that program alone.",
   note="Trusted: renderer, projection. User macros are modelled abstractly ((kw ARG) rewrites to (list 'k) for that instance's definition k). Library state shared between instances is covered with C13 when built.",
   technique="TLA+ two-instance composition with non-interference invariant checked by TLC over all interleavings, replay, TLC trace validation",
   ref="DESIGN.md section 5, C19"),
 "C13": dict(
   text="MCLibs.tla adds a module system to the reference machine: a library instance is a root frame without parent holding its imports and definitions, created by the first import and shared afterwards; importing binds the exported external names to the instance's values. TLC explores every program of one import declaration (5 variants incl. the same library twice under a prefix and a library importing the stateful one) followed by up to 3 (4 thorough) of 13 operations and checks OneInstance, ExportedOnly, LibraryFramesAreRoots and SharedState (peek equals the number of successful bumps through any importer); the model that re-evaluates a library per import - the implementation as found - must be rejected. Every explored program (plus TLC -simulate walks of 12 operations) is replayed with the libraries as registered sources and as .sld files in the program directory.",
   note="Trusted: rendering of the TLA+ library definitions to define-library text, projection. Imports precede all other forms. A second family (patch) has libraries that assign names they imported; histories on which the implementation refuses such an assignment are not judged. Mutation of an exported variable by the importer is not exercised.",
   technique="TLA+ module-system model over the abstract machine, invariants checked by TLC on all small programs, replay of every explored history",
   ref="DESIGN.md section 5, C13"),
 "C15": dict(
   text="Locations.tla defines locations as cursor positions, extents, Within, and the verdict on a reported run-time error (a location is present, not beyond the text, inside the failing top-level form, and at the offending token for an unbound variable read or a non-procedure operator) and on a located syntax error (at or before the offending token). Random programs - valid preceding forms incl. macro definitions/uses and derived forms, then one failing form made of 10 fault kinds nested in up to 3 of 15 calling/derived-form contexts, all written inside that one form - are laid out with random line breaks, indentation and comments; the extents of the failing form and of the site are known from the layout and are themselves verified in TLC with the specification's reader (the marked text is exactly one datum). The location returned by Interpreter::eval and the FILE:LINE:COL printed by the binary are judged by LocTrace.tla.",
   note="Trusted: the layout bookkeeping (checked per event by IsOneDatum), parsing of the binary's diagnostic. For faults other than unbound-read / non-procedure any position inside the failing form is accepted. The fault is always textually inside the failing form.",
   technique="TLA+ location/extent relation over the reader specification, TLC trace validation of recorded error locations (library interface and CLI)",
   ref="DESIGN.md section 5, C15"),
}
PENDING_REASON = "no check is registered for this property yet: the specification module and binding for it are still being built (see DESIGN.md section 10); nothing is claimed"

man = {
 "version": 1,
 "setup_cmd": "./setup",
 "hooks": {"guard": "ruschm_verif",
           "enable": "rustflags --cfg ruschm_verif in /verif/harness/.cargo/config.toml (the harness has a path dependency on /repo)",
           "baseline_off_cmd": "cd /repo && cargo test --workspace --no-fail-fast --offline",
           "source_commits": ["647e757"], "add_only": True},
 "engines": [{"name": "tlc+harness", "path": "/verif/check", "serves_properties": sorted(CLAIMED),
              "kind_free_text": "TLA+ specification suite in /verif/spec checked by TLC; bound to the Rust code by replay of TLC-printed behaviours and by TLC trace validation of executions recorded by /verif/harness"}],
 "checks": [], "not_applicable": [],
 "notes": "See DESIGN.md. Exit codes of every check: 0 held, 1 VIOLATION line printed, 2 tool error or timeout.",
}
extra_na = {}
try:
    extra_na = json.load(open(os.path.join(V, "tools", "not_applicable.json")))
except Exception:
    pass
for p in props:
    i = p["id"]
    if i in CLAIMED:
        c = CLAIMED[i]
        man["checks"].append({
            "property_id": i, "quick_cmd": "./check %s quick" % i, "thorough_cmd": "./check %s thorough" % i,
            "evidence_file": "evidence/%s.json" % i, "replay_cmd_template": "./check %s --replay {path}" % i,
            "engine": "tlc+harness",
            "level_claimed": {"category": "model_checking", "text": c["text"], "design_ref": c["ref"]},
            "level_note": c["note"], "technique": c["technique"]})
    else:
        man["not_applicable"].append({"property_id": i, "reason": extra_na.get(i, PENDING_REASON)})
json.dump(man, open(os.path.join(V, "MANIFEST.json"), "w"), indent=1)
print("claimed:", sorted(CLAIMED), "not applicable:", [x["property_id"] for x in man["not_applicable"]])
