#!/usr/bin/env python3
# tools/recheck_seeded.py <seeded-name> [PROP ...] : apply a recorded seeded change to /repo, run the checks, undo it
import sys, os, json, subprocess, time
name = sys.argv[1]
d = os.path.join("/verif/seeded", name)
meta = json.load(open(os.path.join(d, "meta.json")))
props = sys.argv[2:] or [meta["property"]]
assert subprocess.run("git -C /repo status --porcelain", shell=True, capture_output=True, text=True).stdout.strip() == "", "/repo not clean"
r = subprocess.run("git -C /repo apply %s" % os.path.join(d, "patch.diff"), shell=True, capture_output=True, text=True)
if r.returncode != 0:
    r = subprocess.run("git -C /repo apply --3way %s" % os.path.join(d, "patch.diff"), shell=True, capture_output=True, text=True)
    if r.returncode != 0:
        subprocess.run("git -C /repo checkout HEAD -- . && git -C /repo reset -q", shell=True)      # (a failed 3-way leaves conflict markers)
    assert r.returncode == 0, "patch no longer applies: " + r.stderr
try:
    for c in props:
        t = time.time()
        p = subprocess.run("./check %s quick" % c, shell=True, cwd="/verif", stdout=subprocess.PIPE, stderr=subprocess.STDOUT, text=True)
        nv = p.stdout.count("VIOLATION property=")
        meta.setdefault("verification", {}).setdefault("checks", {})[c] = {"exit": p.returncode, "violation_lines": nv, "wall_s": round(time.time() - t),
                                             "first": [l for l in p.stdout.splitlines() if "what:" in l][:2]}
        meta.setdefault("detected_by", {})[c] = (p.returncode == 1)
        print("%s: check %s quick -> exit %d, %d VIOLATION lines (%.0fs)" % (name, c, p.returncode, nv, time.time() - t))
        if p.returncode not in (0, 1):
            print(p.stdout[-1500:])
finally:
    subprocess.run("git -C /repo checkout -- . && git -C /repo reset -q && git -C /repo clean -fdq src tests", shell=True)
json.dump(meta, open(os.path.join(d, "meta.json"), "w"), indent=1)
