#!/bin/sh
# tools/altsweep.sh <tier> "C01 C02 ..." "1 2 3" <scratch-name> : development aid - run checks under several seeds against a clean
# scratch copy of /repo's HEAD (/tmp/repo-clean must exist: git -C /repo worktree add --detach /tmp/repo-clean HEAD), with scratch
# work and evidence directories under /tmp, so that /repo and /verif/work stay free for seeded-change runs
cd /verif
for s in $3; do for c in $2; do
  t0=$(date +%s)
  out=$(VERIF_SEED=$s VERIF_REPO=/tmp/repo-clean VERIF_WORK=/tmp/work-$4 VERIF_EVIDENCE=/tmp/ev-$4 timeout 7200 ./check $c $1 2>&1); rc=$?
  t1=$(date +%s)
  if [ $rc -ne 0 ]; then echo "### $c $1 seed $s exit $rc ($((t1-t0))s)"; echo "$out" | grep -E "VIOLATION|what:|TOOL-ERROR|Error" | head -8 | cut -c1-700; else echo "ok $c $1 seed $s ($((t1-t0))s)"; fi
done; done
