#!/usr/bin/env python3
# tools/try_benign.py <agent-worktree> <PROP> [MORE PROPS..] : for each benign/patch<i>.diff - confirm that the 82 tests pass with it
# (in the agent's scratch worktree), apply it to /repo, run the quick check(s) (expected: exit 0), undo it, and record it under
# /verif/seeded/benign/<PROP>-<tag>-<i>/ .  A check that alarms on a benign change is a false alarm to be corrected.
import sys, os, subprocess, json, shutil, glob, time
skip = "--skip-tests" in sys.argv      # patches already confirmed once
agent, props = sys.argv[1], [a for a in sys.argv[2:] if not a.startswith("--")]
tag = os.path.basename(agent.rstrip("/"))
env = dict(os.environ, CARGO_NET_OFFLINE="true")
def sh(cmd, cwd=None, timeout=3600, e=env):
    p = subprocess.run(cmd, shell=True, cwd=cwd, env=e, stdout=subprocess.PIPE, stderr=subprocess.STDOUT, text=True, timeout=timeout)
    return p.returncode, p.stdout
for i in (1, 2, 3):
    patch = os.path.join(agent, "benign", "patch%d.diff" % i)
    if not os.path.exists(patch):
        print("patch%d: missing" % i); continue
    note = open(os.path.join(agent, "benign", "note%d.txt" % i)).read() if os.path.exists(os.path.join(agent, "benign", "note%d.txt" % i)) else ""
    tests_ok = True
    if not skip:
        sh("git checkout -- . ", cwd=agent)
        rc, out = sh("git apply %s" % patch, cwd=agent)
        if rc != 0:
            print("patch%d: does not apply: %s" % (i, out[-300:])); continue
        rc, out = sh("cargo test --offline 2>&1 | grep -E '^test result|FAILED|panicked|^error' | head -20", cwd=agent)
        tests_ok = "FAILED" not in out and "error" not in out and out.count("test result: ok") >= 4
        sh("git checkout -- . ", cwd=agent)
    if not tests_ok:
        print("patch%d: the test suite does not pass with it: %s" % (i, out[-400:])); continue
    rc, out = sh("git -C /repo status --porcelain")
    assert out.strip() == "", "/repo is not clean"
    rc, out = sh("git -C /repo apply %s" % patch)
    assert rc == 0, out
    rec = {"property": props[0], "note": note, "checks": {}}
    try:
        for c in props:
            t = time.time()
            e2 = {k: v for k, v in os.environ.items() if k not in ("CARGO_TARGET_DIR", "RUSTFLAGS")}
            p = subprocess.run("./check %s quick" % c, shell=True, cwd="/verif", env=e2, stdout=subprocess.PIPE, stderr=subprocess.STDOUT, text=True)
            nv = p.stdout.count("VIOLATION property=")
            rec["checks"][c] = {"exit": p.returncode, "violation_lines": nv, "wall_s": round(time.time() - t),
                                "first": [l[:500] for l in p.stdout.splitlines() if "what:" in l or "TOOL-ERROR" in l][:3]}
            print("patch%d: check %s quick -> exit %d, %d VIOLATION lines (%.0fs) %s" % (i, c, p.returncode, nv, time.time() - t, "" if p.returncode == 0 else "<<<<<< ALARM"))
            if p.returncode != 0:
                print("   note:", note.strip()[:400])
                for l in rec["checks"][c]["first"]:
                    print("   ", l[:500])
    finally:
        sh("git -C /repo checkout -- . && git -C /repo clean -fdq src tests")
    d = os.path.join("/verif/seeded/benign", "%s-%d" % (tag, i))
    os.makedirs(d, exist_ok=True)
    shutil.copy(patch, os.path.join(d, "patch.diff"))
    json.dump(rec, open(os.path.join(d, "meta.json"), "w"), indent=1)
