#!/usr/bin/env python3
# tools/refresh_walls.py : rewrite the "quick wall" column of the inventory table in DESIGN.md (section 0.1) from the evidence
# files of the last quick runs
import json, re, os
p = "/verif/DESIGN.md"
s = open(p).read().split("\n")
for i, line in enumerate(s):
    m = re.match(r"^\| (C\d\d) \|", line)
    if m and line.rstrip().endswith("s |") and line.count("|") >= 7:
        ev = "/verif/evidence/%s.json" % m.group(1)
        if os.path.exists(ev):
            e = json.load(open(ev))
            if e.get("tier") == "quick":
                cells = line.rstrip().rstrip("|").split("|")
                cells[-1] = " %d s " % round(e["wall_s"])
                s[i] = "|".join(cells) + "|"
open(p, "w").write("\n".join(s))
