#!/usr/bin/env python3
# prints the prompt for a sub-agent that writes BENIGN changes (the property still holds): tools/mkbenign.py C15 a
import json, sys, os, subprocess
pid, tag = sys.argv[1], sys.argv[2]
hint = sys.argv[3] if len(sys.argv) > 3 else ""
p = [json.loads(l) for l in open('/verif/properties.jsonl') if json.loads(l)['id'] == pid][0]
d = "/tmp/mut/%sok%s" % (pid, tag)
if not os.path.exists(d):
    os.makedirs("/tmp/mut", exist_ok=True)
    subprocess.run(["git", "-C", "/repo", "worktree", "add", "--detach", d, "HEAD"], check=True, stdout=subprocess.DEVNULL, stderr=subprocess.DEVNULL)
print(f"""You are working on Ruschm, a small R7RS Scheme interpreter written in Rust. Your own scratch git worktree of it is at {d} (work ONLY inside that directory; never read or touch /repo or /verif). NEVER use `git stash` (the stash is shared between all worktrees of this repository and other people work in theirs): to test on unchanged sources, save `git diff > /tmp/<yourname>.diff`, run `git checkout -- src`, and re-apply with `git apply`. The sandbox has no network: always build and test with `cargo test --offline` / `cargo build --offline` inside {d}.

This is the text of a semantic property that Ruschm satisfies:

TITLE: {p['title']}
STATEMENT: {p['statement']}
QUANTIFIED OVER: {p['quantifier']['text']}
CODE ANCHORS: {json.dumps(p['anchors'].get('mechanism', []))}

Somebody else has written an automatic checker for this property. Your task is to write THREE independent, realistic source changes (refactorings, behaviour changes, optimisations, cosmetic changes) in the code this property is about, each of which KEEPS THE PROPERTY TRUE exactly as stated, but changes something OBSERVABLE that the statement deliberately leaves open and that an over-strict checker might wrongly depend on - for example: the wording of error messages; which of several equally acceptable error classes/positions/values is produced where the statement allows several; internal data structures, allocation patterns or constant overheads; the order of things the statement does not order; the exact spelling of output where the statement only requires it to be valid/readable; extra (correct) functionality. Do not change public Rust API signatures (type and function names, parameters) - callers outside the crate must still compile. Each change must (a) compile, (b) pass the whole existing test suite (`cargo test --offline`, run it before and after), and (c) in your honest judgement not violate the property for ANY input - if in doubt, pick a safer change. {hint}

Deliverables, all inside {d}/benign/ : for i in 1,2,3: patch<i>.diff - `git diff` of change i against HEAD (sources only; each patch applies to a clean HEAD on its own), and note<i>.txt - two or three sentences: what changes observably, and why the property still holds. Leave the worktree clean (git checkout -- . ) at the end. Do not commit. When finished, reply with a short summary of the three changes.""")
