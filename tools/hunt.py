#!/usr/bin/env python3
# tools/hunt.py <generator> <seed> <n> : run a random generator against MachineTrace and shrink what disagrees
import sys; sys.path.insert(0,'/verif')
import random, json
from vlib.common import *
from vlib import gen as G, scheme as S, machine as M, shrink as SH
which, seed, n = sys.argv[1], int(sys.argv[2]), int(sys.argv[3])
ctx = Ctx("HUNT%s%d" % (which, seed),"quick",seed)
rng=random.Random(seed)
def mk():
    if which=="derived": return G.derived_program(rng)
    if which=="core": return G.core_program(rng)
    if which=="fault":
        base = G.core_program(rng) if rng.random() < 0.5 else G.derived_program(rng)
        return G.inject_fault(rng, base)[0] + [S.app("list", S.lit(1), S.lit(2))]
    return getattr(G, which)(rng)
progs=[mk() for _ in range(n)]
mism, results = M.validate_programs(ctx, progs, "hunt")
print("mismatches:", len(mism))
def still(cands):
    ok=[S.wf(c) for c in cands]
    good=[c for c,o in zip(cands,ok) if o]
    if not good: return [False]*len(cands)
    mm,_=M.validate_programs(ctx, good, "shrink", shards=min(8,max(1,len(good)//30)))
    bad={m["program"] for m in mm}
    out=[];k=0
    for o in ok:
        if o:
            out.append(k in bad);k+=1
        else: out.append(False)
    return out
seen=set()
for m in mism[:int(sys.argv[4]) if len(sys.argv)>4 else 5]:
    forms=progs[m["program"]][:m["form"]+1]
    small=SH.shrink(forms, still)
    txt=" ".join(S.render(f) for f in small)
    if txt in seen: continue
    seen.add(txt)
    print("SHRUNK:", txt)
    mm,res=M.validate_programs(ctx,[small],"one",shards=1)
    for x in mm: print("   ", x["why"], "spec:", json.dumps(x["expected"]), json.dumps(x["expectedTicks"]), "| impl:", json.dumps(x["observed"]), json.dumps(x["observedTicks"]))
