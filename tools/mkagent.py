#!/usr/bin/env python3
# prints the prompt for a mutant-writing sub-agent: tools/mkagent.py C12 a "hint about variety"
import json, sys, os, subprocess
pid, tag = sys.argv[1], sys.argv[2]
hint = sys.argv[3] if len(sys.argv) > 3 else ""
p = [json.loads(l) for l in open('/verif/properties.jsonl') if json.loads(l)['id'] == pid][0]
d = "/tmp/mut/%s%s" % (pid, tag)
if not os.path.exists(d):
    os.makedirs("/tmp/mut", exist_ok=True)
    subprocess.run(["git", "-C", "/repo", "worktree", "add", "--detach", d, "HEAD"], check=True, stdout=subprocess.DEVNULL, stderr=subprocess.DEVNULL)
print(f"""You are working on Ruschm, a small R7RS Scheme interpreter written in Rust. Your own scratch git worktree of it is at {d} (work ONLY inside that directory; never read or touch /repo or /verif). NEVER use `git stash` (the stash is shared between all worktrees of this repository and other people work in theirs): to test on unchanged sources, save `git diff > /tmp/<yourname>.diff`, run `git checkout -- src`, and re-apply with `git apply`. The sandbox has no network: always build and test with `cargo test --offline` / `cargo build --offline` inside {d}.

This is the text of a semantic property that Ruschm is supposed to satisfy:

TITLE: {p['title']}
STATEMENT: {p['statement']}
QUANTIFIED OVER: {p['quantifier']['text']}
CODE ANCHORS: {json.dumps(p['anchors'].get('mechanism', []))}

Your task: write ONE realistic change to the Ruschm sources (src/..., including the bundled .sld files if useful) that BREAKS this property, while (a) the crate still compiles and (b) the whole existing test suite still passes (`cargo test --offline` in {d}: every test must pass, run it before and after). The change should look like a plausible regression a developer could introduce (a refactoring slip, an optimisation, a wrong edge case), and it must need something SPECIFIC to manifest - a particular multi-step sequence of operations, an unusual input, a particular nesting or interleaving, or two cooperating sites that each look fine alone - not something that ordinary use would expose at once. {hint}

Deliverables, all inside {d}/mutant/ :
 1. patch.diff - `git diff` of your source change against HEAD (sources only, no test or demo files in it).
 2. a demonstration: either demo.scm + demo.sh (a script that builds with cargo --offline, runs something, and exits non-zero when the property is broken) or a Rust integration test file demo_test.rs that can be dropped into tests/ ; it must FAIL with your change applied and PASS on the unchanged sources. Verify both yourself.
 3. meta.json - {{"property": "{pid}", "summary": "...what the change does...", "needs": "...what is needed for it to manifest...", "ran": ["commands you ran and their outcome"]}}.
Keep the source change small (a few lines to a few dozen). Leave the worktree with your change APPLIED to the sources (uncommitted). Do not commit. When finished, reply with a 5-line summary: what you changed, what input shows it, and confirmation that cargo test passes with the change.""")
