#!/bin/sh
# tools/seedsweep.sh "C01 C02 ..." "1 2 3" : run quick checks under several seeds on the unchanged tree; print what is not quiet
cd /verif
for s in $2; do for c in $1; do
  out=$(VERIF_SEED=$s timeout 1800 ./check $c quick 2>&1); rc=$?
  if [ $rc -ne 0 ]; then echo "### $c seed $s exit $rc"; echo "$out" | grep -E "VIOLATION|what:|TOOL-ERROR" | head -6 | cut -c1-600; else echo "ok $c seed $s"; fi
done; done
