#!/bin/sh
# tools/thoroughsweep.sh "C01 C02 ..." : development aid - run thorough tiers against a clean scratch copy of /repo's HEAD
# (so that /repo itself stays free for seeded-change runs); scratch work and evidence under /tmp, removed by the caller
cd /verif
git -C /repo worktree remove --force /tmp/repo-clean 2>/dev/null
git -C /repo worktree add --detach /tmp/repo-clean HEAD >/dev/null 2>&1
for c in $1; do
  t0=$(date +%s)
  out=$(VERIF_REPO=/tmp/repo-clean VERIF_WORK=/tmp/work-thorough VERIF_EVIDENCE=/tmp/ev-thorough timeout 7200 ./check $c thorough 2>&1); rc=$?
  t1=$(date +%s)
  if [ $rc -ne 0 ]; then echo "### $c thorough exit $rc ($((t1-t0))s)"; echo "$out" | grep -E "VIOLATION|what:|TOOL-ERROR|Error" | head -8 | cut -c1-700; else echo "ok $c thorough ($((t1-t0))s)"; echo "$out" | grep KNOWN-FINDING | cut -c1-120; fi
done
