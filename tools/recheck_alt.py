#!/usr/bin/env python3
# tools/recheck_alt.py <seeded-name> [PROP ...] : development aid - like recheck_seeded.py, but against a scratch worktree of
# /repo's HEAD with the patch applied (VERIF_REPO), so that /repo itself stays free.  Does not update meta.json.
import sys, os, json, subprocess, time
name = sys.argv[1]
d = os.path.join("/verif/seeded", name)
meta = json.load(open(os.path.join(d, "meta.json")))
props = sys.argv[2:] or [meta["property"]]
W = "/tmp/mutv/alt-" + os.path.basename(os.environ.get("ALT_WORK", "w")) + "-" + name
subprocess.run("git -C /repo worktree remove --force %s" % W, shell=True, capture_output=True)
r = subprocess.run("git -C /repo worktree add --detach %s HEAD" % W, shell=True, capture_output=True, text=True)
assert r.returncode == 0, r.stderr
try:
    r = subprocess.run("git -C %s apply %s" % (W, os.path.join(d, "patch.diff")), shell=True, capture_output=True, text=True)
    assert r.returncode == 0, "patch no longer applies: " + r.stderr
    env = {k: v for k, v in os.environ.items() if k not in ("CARGO_TARGET_DIR", "RUSTFLAGS")}
    env.update(VERIF_REPO=W, VERIF_WORK=os.environ.get("ALT_WORK", "/tmp/work-altm"), VERIF_EVIDENCE="/tmp/ev-altm")
    for c in props:
        t = time.time()
        p = subprocess.run("./check %s quick" % c, shell=True, cwd="/verif", env=env, stdout=subprocess.PIPE, stderr=subprocess.STDOUT, text=True)
        print("%s: check %s quick (alt) -> exit %d, %d VIOLATION lines (%.0fs)" % (name, c, p.returncode, p.stdout.count("VIOLATION property="), time.time() - t))
        if p.returncode not in (0, 1):
            print(p.stdout[-1500:])
finally:
    subprocess.run("git -C /repo worktree remove --force %s" % W, shell=True, capture_output=True)
