// Conformance harness: executes jobs on the real Ruschm code and projects what it observes to
// JSON.  It decides nothing: expected outcomes come from the TLA+ specification (TLC), and the
// comparison is made either by TLC (trace validation) or by the orchestrator against TLC's
// printed vectors (replay).
//
//   verif-harness exec JOBS.ndjson OUT.ndjson [--threads N]
//
// A job is one JSON object per line: {"id":..,"kind":"session","steps":[..]} (see `run_session`),
// {"kind":"lex","text":..}, {"kind":"bracket","text":..}.  One result line per job, same order.
use ruschm::append_variadic_param;
use ruschm::environment::Environment;
use ruschm::error::{ErrorData, SchemeError};
use ruschm::interpreter::error::LogicError;
use ruschm::interpreter::{Interpreter, LibraryFactory};
use ruschm::param_fixed;
use ruschm::parser::pair::GenericPair;
use ruschm::parser::{
    Lexer, LibraryName, LibraryNameElement, ParameterFormals, Primitive, TokenData,
};
use ruschm::values::{ArgVec, Number, Procedure, Type, Value, ValueReference};
use serde_json::{json, Value as J};
use std::alloc::{GlobalAlloc, Layout, System};
use std::cell::RefCell;
use std::io::{BufRead, BufReader, BufWriter, Write};
use std::panic::{catch_unwind, AssertUnwindSafe};
use std::path::PathBuf;
use std::rc::Rc;
use std::sync::atomic::Ordering;

// ---------------------------------------------------------------------------------------------
// counting allocator (C02: live heap at observation points)
struct Counting;
// per-thread (a shared atomic makes every allocation of every worker contend for one cache line);
// const-initialised and without destructor, so it is safe to touch from the allocator
thread_local! { static LIVE: std::cell::Cell<isize> = const { std::cell::Cell::new(0) }; }
#[inline(always)]
fn live_add(d: isize) {
    let _ = LIVE.try_with(|l| l.set(l.get() + d));
}
unsafe impl GlobalAlloc for Counting {
    unsafe fn alloc(&self, l: Layout) -> *mut u8 {
        live_add(l.size() as isize);
        System.alloc(l)
    }
    unsafe fn dealloc(&self, p: *mut u8, l: Layout) {
        live_add(-(l.size() as isize));
        System.dealloc(p, l)
    }
    unsafe fn realloc(&self, p: *mut u8, l: Layout, n: usize) -> *mut u8 {
        live_add(n as isize - l.size() as isize);
        System.realloc(p, l, n)
    }
}
#[global_allocator]
static A: Counting = Counting;

// ---------------------------------------------------------------------------------------------
// per-thread observation state
thread_local! {
    static TICKS: RefCell<Vec<J>> = RefCell::new(Vec::new());
    static PROBES: RefCell<Vec<J>> = RefCell::new(Vec::new());
    static PROBE_KEEP: RefCell<(i64, i64)> = RefCell::new((0, 0)); // (every, last_n) sampling
    static VECS: RefCell<Vec<ValueReference<Vec<Value<f32>>>>> = RefCell::new(Vec::new());
    static PANIC_INFO: RefCell<Option<(String, String)>> = RefCell::new(None);
    // bytes the harness itself holds for its observation logs (excluded from the live-heap measure)
    static EXCLUDED: std::cell::Cell<isize> = const { std::cell::Cell::new(0) };
}

type V = Value<f32>;
type It<'a> = Interpreter<'a, f32>;

fn vec_id(v: &ValueReference<Vec<V>>) -> usize {
    VECS.with(|vs| {
        let mut vs = vs.borrow_mut();
        for (i, o) in vs.iter().enumerate() {
            if o.ptr_eq(v) {
                return i;
            }
        }
        vs.push(v.clone()); // kept alive: an address is never reused within a session
        vs.len() - 1
    })
}

fn project_number(n: &Number<f32>) -> J {
    match n {
        Number::Integer(i) => json!({"t":"int","v":i}),
        Number::Rational(a, b) => json!({"t":"rat","n":a,"d":b}),
        Number::Real(r) => {
            let b = r.to_bits();
            json!({"t":"real","s":(b>>31)&1,"e":(b>>23)&0xff,"m":b&0x7f_ffff,"txt":format!("{:?}", r)})
        }
    }
}

fn cps(s: &str) -> J {
    J::Array(s.chars().map(|c| json!(c as u32)).collect())
}

fn project(v: &V) -> J {
    match v {
        Value::Number(n) => project_number(n),
        Value::Boolean(b) => json!({"t":"bool","v":b}),
        Value::Character(c) => json!({"t":"char","c":*c as u32}),
        Value::String(s) => json!({"t":"str","cs":cps(s)}),
        Value::Symbol(s) => json!({"t":"sym","x":s}),
        Value::Procedure(_) => json!({"t":"proc"}),
        Value::Transformer(_) => json!({"t":"transformer"}),
        Value::Void => json!({"t":"void"}),
        Value::Vector(r) => {
            let id = vec_id(r);
            let (m, xs): (bool, Vec<J>) = match r {
                ValueReference::Immutable(x) => (false, x.iter().map(project).collect()),
                ValueReference::Mutable(x) => (true, x.borrow().iter().map(project).collect()),
            };
            json!({"t":"vec","id":id,"mut":m,"xs":xs})
        }
        Value::Pair(p) => {
            let mut xs = Vec::new();
            let mut cur: &GenericPair<V> = p.as_ref();
            loop {
                match cur {
                    GenericPair::Empty => {
                        return if xs.is_empty() {
                            json!({"t":"nil"})
                        } else {
                            json!({"t":"list","xs":xs,"tl":{"t":"nil"}})
                        }
                    }
                    GenericPair::Some(car, cdr) => {
                        xs.push(project(car));
                        match cdr {
                            Value::Pair(next) => cur = next.as_ref(),
                            other => return json!({"t":"list","xs":xs,"tl":project(other)}),
                        }
                    }
                }
            }
        }
    }
}

fn type_name(t: &Type) -> String {
    format!("{:?}", t)
}

fn project_error(e: &SchemeError) -> J {
    let (kind, variant) = match &e.data {
        ErrorData::Syntax(s) => ("Syntax".to_string(), {
            let d = format!("{:?}", s);
            d.split(|c: char| !c.is_alphanumeric()).next().unwrap_or("").to_string()
        }),
        ErrorData::IO(_) => ("Io".to_string(), "IO".to_string()),
        ErrorData::Logic(l) => match l {
            LogicError::UnboundedSymbol(_) => ("Unbound".into(), "UnboundedSymbol".into()),
            LogicError::TypeMisMatch(_, Type::Procedure) => {
                ("NonProcedure".into(), "TypeMisMatch:Procedure".into())
            }
            LogicError::TypeMisMatch(_, t) => {
                ("WrongType".into(), format!("TypeMisMatch:{}", type_name(t)))
            }
            LogicError::DivisionByZero => ("DivByZero".into(), "DivisionByZero".into()),
            LogicError::VectorIndexOutOfBounds => {
                ("IndexRange".into(), "VectorIndexOutOfBounds".into())
            }
            LogicError::ArgumentMissMatch(..) => ("Arity".into(), "ArgumentMissMatch".into()),
            LogicError::RequiresMutable(_) => ("ImmutableVector".into(), "RequiresMutable".into()),
            LogicError::LibraryNotFound(_) => ("NotFound".into(), "LibraryNotFound".into()),
            LogicError::LibraryImportCyclic(_) => ("Cyclic".into(), "LibraryImportCyclic".into()),
            LogicError::MetaCircularSyntax(_) => ("Syntax".into(), "MetaCircularSyntax".into()),
            LogicError::NegativeLength => ("NegativeLength".into(), "NegativeLength".into()),
            LogicError::InExactConversion(_) => ("InExact".into(), "InExactConversion".into()),
            LogicError::InproperList(_) => ("WrongType".into(), "InproperList".into()),
            LogicError::UnexpectedExpression(_) => {
                ("Syntax".into(), "UnexpectedExpression".into())
            }
            LogicError::Extension(m) => ("Extension".into(), format!("Extension:{}", m)),
        },
    };
    let loc: Vec<u32> = match e.location {
        Some(l) => vec![l[0], l[1]],
        None => vec![],
    };
    json!({"k":"error","kind":kind,"variant":variant,"loc":loc,"msg":format!("{}", e)})
}

fn project_outcome(r: &Result<Option<V>, SchemeError>) -> J {
    match r {
        Ok(None) => json!({"k":"none"}),
        Ok(Some(v)) => json!({"k":"value","v":project(v)}),
        Err(e) => project_error(e),
    }
}

// ---------------------------------------------------------------------------------------------
// host procedures
#[inline(never)]
fn stack_pointer() -> usize {
    let x = 0u8;
    &x as *const u8 as usize
}

fn define_natives(it: &It) -> Result<(), SchemeError> {
    // (tick! label)        logs label, returns label
    // (tick! label value)  logs label, returns value
    let tick_params: ParameterFormals = append_variadic_param!(param_fixed!["label"], "value");
    it.env.define(
        "tick!".to_string(),
        Value::Procedure(Procedure::new_builtin_impure(
            "tick!".to_string(),
            tick_params,
            |args: ArgVec<f32>, _env: Rc<Environment<f32>>| {
                let mut it = args.into_iter();
                let label = it.next().unwrap();
                let before = LIVE.with(|l| l.get());
                TICKS.with(|t| t.borrow_mut().push(project(&label)));
                let after = LIVE.with(|l| l.get());
                EXCLUDED.with(|e| e.set(e.get() + (after - before)));
                // builtins receive their arguments flat (the rest parameter is not packed)
                Ok(match it.next() {
                    Some(v) => v,
                    None => label,
                })
            },
        )),
    );
    // (%verif-sanity-7f3a x) returns x: the probe evaluated after robustness inputs.  Its name is not
    // producible by the input generators, so no input can rebind it (tick! can be redefined by a mutated program).
    it.env.define(
        "%verif-sanity-7f3a".to_string(),
        Value::Procedure(Procedure::new_builtin_impure(
            "%verif-sanity-7f3a".to_string(),
            param_fixed!["x"],
            |args: ArgVec<f32>, _env: Rc<Environment<f32>>| Ok(args.into_iter().next().unwrap()),
        )),
    );
    // (probe! site iter) logs the native stack address and the live heap; returns iter
    it.env.define(
        "probe!".to_string(),
        Value::Procedure(Procedure::new_builtin_impure(
            "probe!".to_string(),
            param_fixed!["site", "iter"],
            |args: ArgVec<f32>, _env: Rc<Environment<f32>>| {
                let mut it = args.into_iter();
                let site = it.next().unwrap();
                let iter = it.next().unwrap();
                let sp = stack_pointer();
                let before = LIVE.with(|l| l.get());
                let live = before - EXCLUDED.with(|e| e.get());
                let n = match &iter {
                    Value::Number(Number::Integer(i)) => *i as i64,
                    _ => -1,
                };
                let keep = PROBE_KEEP.with(|k| {
                    let (every, _) = *k.borrow();
                    every <= 1 || n < 8 || n % every == 0
                });
                if keep {
                    PROBES.with(|p| {
                        p.borrow_mut().push(
                            json!({"site":project(&site),"iter":n,"sp":sp as u64,"live":live as i64}),
                        )
                    });
                }
                let after = LIVE.with(|l| l.get());
                EXCLUDED.with(|e| e.set(e.get() + (after - before)));
                Ok(iter)
            },
        )),
    );
    Ok(())
}

fn capture_stdout<T>(f: impl FnOnce() -> T) -> (T, String) {
    use std::io::{Read, Seek, SeekFrom, Write};
    use std::os::unix::io::AsRawFd;
    std::io::stdout().flush().ok();
    let mut tmp = tempfile_in_work();
    let saved = unsafe { libc::dup(1) };
    unsafe { libc::dup2(tmp.as_raw_fd(), 1) };
    let r = catch_unwind(AssertUnwindSafe(f));
    std::io::stdout().flush().ok();
    unsafe {
        libc::dup2(saved, 1);
        libc::close(saved);
    }
    let mut shown = String::new();
    tmp.seek(SeekFrom::Start(0)).ok();
    let mut bytes = Vec::new();
    tmp.read_to_end(&mut bytes).ok();
    shown.push_str(&String::from_utf8_lossy(&bytes));
    match r {
        Ok(v) => (v, shown),
        Err(p) => std::panic::resume_unwind(p),
    }
}

fn tempfile_in_work() -> std::fs::File {
    let path = std::env::temp_dir().join(format!("verif-cap-{}-{:?}", std::process::id(), std::thread::current().id()));
    let f = std::fs::OpenOptions::new().read(true).write(true).create(true).truncate(true).open(&path).expect("tmp");
    std::fs::remove_file(&path).ok();
    f
}

fn library_name(parts: &J) -> LibraryName {
    LibraryName(
        parts
            .as_array()
            .map(|a| {
                a.iter()
                    .map(|p| match p {
                        J::String(s) => LibraryNameElement::Identifier(s.clone()),
                        J::Number(n) => LibraryNameElement::Integer(n.as_u64().unwrap_or(0) as u32),
                        _ => LibraryNameElement::Identifier("?".into()),
                    })
                    .collect()
            })
            .unwrap_or_default(),
    )
}

fn unproject_simple(j: &J) -> V {
    match j.get("t").and_then(|t| t.as_str()) {
        Some("int") => Value::Number(Number::Integer(j["v"].as_i64().unwrap() as i32)),
        Some("bool") => Value::Boolean(j["v"].as_bool().unwrap()),
        Some("sym") => Value::Symbol(j["x"].as_str().unwrap().to_string()),
        _ => Value::Void,
    }
}

fn env_dump(it: &It, skip: &std::collections::HashSet<String>) -> J {
    let mut defs = it.env.iter_local_definitions();
    let mut out: Vec<(String, J)> = Vec::new();
    while let Some((name, value)) = defs.next() {
        if !skip.contains(name) {
            out.push((name.clone(), project(value)));
        }
    }
    drop(defs);
    out.sort_by(|a, b| a.0.cmp(&b.0));
    J::Array(out.into_iter().map(|(n, v)| json!({"name":n,"v":v})).collect())
}

#[cfg(ruschm_verif)]
fn loader_state(it: &It) -> J {
    let (inprog, import_end, factories) = it.verif_loader_state();
    json!({"inProgress":inprog,"importEnd":import_end,"factories":factories})
}

struct Session<'a> {
    its: Vec<Option<It<'a>>>,
    base_names: std::collections::HashSet<String>,
}

fn take_ticks() -> J {
    J::Array(TICKS.with(|t| std::mem::take(&mut *t.borrow_mut())))
}
fn take_probes() -> J {
    J::Array(PROBES.with(|t| std::mem::take(&mut *t.borrow_mut())))
}

fn run_step<'a>(s: &mut Session<'a>, step: &J) -> J {
    let op = step["op"].as_str().unwrap_or("");
    let i = step.get("i").and_then(|x| x.as_u64()).unwrap_or(0) as usize;
    while s.its.len() <= i {
        s.its.push(None);
    }
    match op {
        "new" => {
            let stdlib = step.get("stdlib").and_then(|x| x.as_bool()).unwrap_or(true);
            let it = if stdlib { It::new_with_stdlib() } else { It::default() };
            if step.get("natives").and_then(|x| x.as_bool()).unwrap_or(true) {
                define_natives(&it).unwrap();
            }
            if s.base_names.is_empty() {
                let mut defs = it.env.iter_local_definitions();
                while let Some((n, _)) = defs.next() {
                    s.base_names.insert(n.clone());
                }
            }
            s.its[i] = Some(it);
            json!({"k":"none"})
        }
        "eval" => {
            let text = step["text"].as_str().unwrap_or("");
            let it = s.its[i].as_mut().expect("no interpreter");
            let r = it.eval(text.chars());
            let mut o = project_outcome(&r);
            if step.get("print").and_then(|x| x.as_bool()).unwrap_or(false) {
                if let Ok(Some(v)) = &r {
                    o["printed"] = cps(&format!("{}", v));      // what display writes for the value
                }
            }
            o["ticks"] = take_ticks();
            let pr = take_probes();
            if pr.as_array().map(|a| !a.is_empty()).unwrap_or(false) {
                o["probes"] = pr;
            }
            o
        }
        "evalcap" => {
            // evaluate with file descriptor 1 redirected to a temporary file: what the program displays
            // (only meaningful with --threads 1: the descriptor is shared by the whole process)
            let text = step["text"].as_str().unwrap_or("");
            let it = s.its[i].as_mut().expect("no interpreter");
            let (r, shown) = capture_stdout(|| it.eval(text.chars()));
            let mut o = project_outcome(&r);
            o["displayed"] = cps(&shown);
            o["ticks"] = take_ticks();
            o
        }
        "evalfile" => {
            let path = PathBuf::from(step["path"].as_str().unwrap_or(""));
            let it = s.its[i].as_mut().expect("no interpreter");
            let r = it.eval_file(path);
            let mut o = project_outcome(&r);
            o["ticks"] = take_ticks();
            o
        }
        "progdir" => {
            let it = s.its[i].as_mut().expect("no interpreter");
            it.program_directory = step["path"].as_str().map(PathBuf::from);
            json!({"k":"none"})
        }
        "reglib" => {
            let name = library_name(&step["name"]);
            let text = step["text"].as_str().unwrap_or("");
            let it = s.its[i].as_mut().expect("no interpreter");
            match LibraryFactory::from_char_stream(&name, text.chars()) {
                Ok(f) => {
                    it.register_library_factory(f);
                    json!({"k":"none"})
                }
                Err(e) => project_error(&e),
            }
        }
        "regnative" => {
            let name = library_name(&step["name"]);
            let exports: Vec<(String, V)> = step["exports"]
                .as_array()
                .map(|a| {
                    a.iter()
                        .map(|e| (e["name"].as_str().unwrap().to_string(), unproject_simple(&e["v"])))
                        .collect()
                })
                .unwrap_or_default();
            let it = s.its[i].as_mut().expect("no interpreter");
            it.register_library_factory(LibraryFactory::Native(
                name,
                Box::new(move || exports.clone()),
            ));
            json!({"k":"none"})
        }
        "env" => {
            let it = s.its[i].as_ref().expect("no interpreter");
            let all = step.get("all").and_then(|x| x.as_bool()).unwrap_or(false);
            let empty = std::collections::HashSet::new();
            json!({"k":"env","defs":env_dump(it, if all { &empty } else { &s.base_names })})
        }
        #[cfg(ruschm_verif)]
        "loader" => {
            let it = s.its[i].as_ref().expect("no interpreter");
            json!({"k":"loader","st":loader_state(it)})
        }
        "probecfg" => {
            let every = step.get("every").and_then(|x| x.as_i64()).unwrap_or(1);
            PROBE_KEEP.with(|k| *k.borrow_mut() = (every, 0));
            json!({"k":"none"})
        }
        "drop" => {
            s.its[i] = None;
            json!({"k":"none"})
        }
        other => json!({"k":"harness-error","msg":format!("unknown op {}", other)}),
    }
}

fn run_session(job: &J) -> J {
    VECS.with(|v| v.borrow_mut().clear());
    TICKS.with(|v| v.borrow_mut().clear());
    PROBES.with(|v| v.borrow_mut().clear());
    PROBE_KEEP.with(|k| *k.borrow_mut() = (1, 0));
    let mut s = Session { its: Vec::new(), base_names: Default::default() };
    let mut results: Vec<J> = Vec::new();
    let steps = job["steps"].as_array().cloned().unwrap_or_default();
    for step in steps.iter() {
        PANIC_INFO.with(|p| *p.borrow_mut() = None);
        let r = catch_unwind(AssertUnwindSafe(|| run_step(&mut s, step)));
        match r {
            Ok(o) => results.push(o),
            Err(_) => {
                let (site, msg) = PANIC_INFO
                    .with(|p| p.borrow_mut().take())
                    .unwrap_or(("?".into(), "?".into()));
                let mut o = json!({"k":"panic","site":site,"msg":msg});
                o["ticks"] = take_ticks();
                results.push(o);
                // the interpreter that panicked is not trusted any further: the property is
                // already violated; later steps on it would only report noise.  (Stateless
                // batches - numeric cases - ask to go on.)
                if job.get("renew_after_panic").and_then(|x| x.as_bool()).unwrap_or(false) {
                    // robustness batches (C07): the panic is recorded; later inputs get a fresh interpreter
                    let i = step.get("i").and_then(|x| x.as_u64()).unwrap_or(0) as usize;
                    let fresh = catch_unwind(AssertUnwindSafe(|| {
                        let it = It::new_with_stdlib();
                        define_natives(&it).unwrap();
                        it
                    }));
                    match fresh {
                        Ok(it) => {
                            // the old interpreter is leaked on purpose: dropping a half-updated structure may panic again
                            if let Some(old) = s.its[i].take() {
                                std::mem::forget(old);
                            }
                            s.its[i] = Some(it)
                        }
                        Err(_) => break,
                    }
                } else if !job.get("continue_after_panic").and_then(|x| x.as_bool()).unwrap_or(false) {
                    break;
                }
            }
        }
    }
    VECS.with(|v| v.borrow_mut().clear());
    json!({"id":job["id"],"results":results})
}

fn token_json(t: &TokenData) -> J {
    match t {
        TokenData::Identifier(s) => json!({"t":"ident","cs":cps(s)}),
        TokenData::Primitive(p) => match p {
            Primitive::String(s) => json!({"t":"str","cs":cps(s)}),
            Primitive::Character(c) => json!({"t":"char","c":*c as u32}),
            Primitive::Boolean(b) => json!({"t":"bool","v":b}),
            Primitive::Integer(i) => json!({"t":"int","v":i}),
            Primitive::Rational(a, b) => json!({"t":"rat","n":a,"d":b}),
            Primitive::Real(s) => json!({"t":"real","cs":cps(s)}),
        },
        TokenData::LeftParen => json!({"t":"lp"}),
        TokenData::RightParen => json!({"t":"rp"}),
        TokenData::VecConsIntro => json!({"t":"vecopen"}),
        TokenData::ByteVecConsIntro => json!({"t":"u8open"}),
        TokenData::Quote => json!({"t":"quote"}),
        TokenData::Quasiquote => json!({"t":"quasi"}),
        TokenData::Unquote => json!({"t":"unquote"}),
        TokenData::UnquoteSplicing => json!({"t":"unquotes"}),
        TokenData::Period => json!({"t":"dot"}),
    }
}

fn run_lex(job: &J) -> J {
    let text: String = match &job["text"] {
        J::String(s) => s.clone(),
        J::Array(a) => a
            .iter()
            .map(|c| std::char::from_u32(c.as_u64().unwrap_or(63) as u32).unwrap_or('?'))
            .collect(),
        _ => String::new(),
    };
    PANIC_INFO.with(|p| *p.borrow_mut() = None);
    let r = catch_unwind(AssertUnwindSafe(|| {
        let mut toks = Vec::new();
        for t in Lexer::from_char_stream(text.chars()) {
            match t {
                Ok(tok) => {
                    let mut j = token_json(&tok.data);
                    if let Some(l) = tok.location {
                        j["loc"] = json!([l[0], l[1]]);
                    }
                    toks.push(j)
                }
                Err(e) => return json!({"k":"lexerror","toks":toks,"err":project_error(&e)}),
            }
        }
        json!({"k":"tokens","toks":toks})
    }));
    let mut o = match r {
        Ok(o) => o,
        Err(_) => {
            let (site, msg) =
                PANIC_INFO.with(|p| p.borrow_mut().take()).unwrap_or(("?".into(), "?".into()));
            json!({"k":"panic","site":site,"msg":msg})
        }
    };
    o["id"] = job["id"].clone();
    o
}

#[cfg(ruschm_verif)]
fn run_bracket(job: &J) -> J {
    let text = job["text"].as_str().unwrap_or("");
    json!({"id":job["id"],"closed":ruschm::repl::verif_check_bracket_closed(text)})
}
#[cfg(not(ruschm_verif))]
fn run_bracket(job: &J) -> J {
    json!({"id":job["id"],"k":"harness-error","msg":"built without ruschm_verif"})
}

fn run_job(job: &J) -> J {
    match job["kind"].as_str().unwrap_or("session") {
        "session" => run_session(job),
        "lex" => run_lex(job),
        "bracket" => run_bracket(job),
        other => json!({"id":job["id"],"k":"harness-error","msg":format!("unknown kind {}", other)}),
    }
}

fn main() {
    let args: Vec<String> = std::env::args().collect();
    if args.len() < 4 || args[1] != "exec" {
        eprintln!("usage: verif-harness exec JOBS.ndjson OUT.ndjson [--threads N] [--stack-mb M]");
        std::process::exit(2);
    }
    let mut threads = 8usize;
    let mut stack_mb = 256usize;
    let mut job_timeout_ms = 0u64; // 0 = no watchdog
    let mut k = 4;
    while k + 1 < args.len() {
        match args[k].as_str() {
            "--threads" => threads = args[k + 1].parse().unwrap_or(8),
            "--stack-mb" => stack_mb = args[k + 1].parse().unwrap_or(256),
            "--job-timeout-ms" => job_timeout_ms = args[k + 1].parse().unwrap_or(0),
            _ => {}
        }
        k += 2;
    }
    std::panic::set_hook(Box::new(|info| {
        let site = info
            .location()
            .map(|l| format!("{}:{}", l.file(), l.line()))
            .unwrap_or_else(|| "?".into());
        let msg = if let Some(s) = info.payload().downcast_ref::<&str>() {
            s.to_string()
        } else if let Some(s) = info.payload().downcast_ref::<String>() {
            s.clone()
        } else {
            "?".to_string()
        };
        PANIC_INFO.with(|p| *p.borrow_mut() = Some((site, msg)));
    }));
    let f = BufReader::new(std::fs::File::open(&args[2]).expect("open jobs"));
    let jobs: Vec<J> = f
        .lines()
        .map(|l| l.unwrap())
        .filter(|l| !l.trim().is_empty())
        .map(|l| serde_json::from_str(&l).expect("bad job json"))
        .collect();
    let jobs = std::sync::Arc::new(jobs);
    let next = std::sync::Arc::new(std::sync::atomic::AtomicUsize::new(0));
    // results are appended (with their job index) and flushed as they complete, so that a job
    // that kills the process (native stack overflow, abort) loses only itself: the orchestrator
    // re-runs the missing indices one per process to attribute the crash.
    let out = std::sync::Arc::new(std::sync::Mutex::new(BufWriter::new(
        std::fs::File::create(&args[3]).expect("create out"),
    )));
    // watchdog: a job that runs longer than the limit (non-termination is outside every claim) is
    // recorded as {"k":"timeout"} and the process exits with status 3; the orchestrator re-runs the
    // jobs that were in flight on the other threads.
    let running: std::sync::Arc<std::sync::Mutex<Vec<Option<(usize, std::time::Instant)>>>> =
        std::sync::Arc::new(std::sync::Mutex::new(vec![None; threads.max(1)]));
    if job_timeout_ms > 0 {
        let running = running.clone();
        let out = out.clone();
        let jobs = jobs.clone();
        std::thread::spawn(move || loop {
            std::thread::sleep(std::time::Duration::from_millis(50));
            let r = running.lock().unwrap();
            for slot in r.iter() {
                if let Some((idx, t0)) = slot {
                    if t0.elapsed().as_millis() as u64 > job_timeout_ms {
                        let mut w = out.lock().unwrap();
                        let line = json!({"idx": idx, "id": jobs[*idx]["id"], "k": "timeout", "timedout": true,
                                          "results": [{"k": "timeout"}]});
                        writeln!(w, "{}", line).unwrap();
                        w.flush().unwrap();
                        std::process::exit(3);
                    }
                }
            }
        });
    }
    let mut hs = Vec::new();
    for tid in 0..threads.max(1) {
        let jobs = jobs.clone();
        let next = next.clone();
        let out = out.clone();
        let running = running.clone();
        hs.push(
            std::thread::Builder::new()
                .stack_size(stack_mb << 20)
                .spawn(move || loop {
                    let i = next.fetch_add(1, Ordering::SeqCst);
                    if i >= jobs.len() {
                        break;
                    }
                    running.lock().unwrap()[tid] = Some((i, std::time::Instant::now()));
                    // "own_thread": the job runs on a thread of its own, so that per-thread state of the code under
                    // test (thread-local caches, counters) starts fresh: the job's first interpreter is the thread's first
                    let own = jobs[i].get("own_thread").and_then(|x| x.as_bool()).unwrap_or(false);
                    let mut r = if own {
                        let job = jobs[i].clone();
                        std::thread::Builder::new()
                            .stack_size(stack_mb << 20)
                            .spawn(move || run_job(&job))
                            .unwrap()
                            .join()
                            .unwrap_or_else(|_| json!({"k": "abort", "results": [], "crashed": true}))
                    } else {
                        run_job(&jobs[i])
                    };
                    running.lock().unwrap()[tid] = None;
                    r["idx"] = json!(i);
                    let mut w = out.lock().unwrap();
                    writeln!(w, "{}", r).unwrap();
                    w.flush().unwrap();
                })
                .unwrap(),
        );
    }
    for h in hs {
        h.join().expect("worker thread died");
    }
}
