# C01 Core evaluation yields the value Scheme semantics assigns
import random
from .common import *
from . import scheme as S, machine as M, gen as G


def sigs_fn(forms, tag):
    return [{"kind": "vector", "value": " ".join(S.render(f) for f in forms)}] + \
           [{"kind": "input_class", "value": c} for c in G.classes_of_program(forms)]


def run(ctx):
    tier = ctx.tier
    build_harness()
    fam = "core_quick" if tier == "quick" else "core_full"
    r = run_tlc("MCMachine.tla", "MCMachine_%s.cfg" % fam, ctx.dir, workers=12, timeout=3000, coverage=(tier == "thorough"))
    require_clean(r, "MCMachine " + fam)
    ctx.add_tlc(r, "MCMachine_" + fam)
    vecs = sorted(r.vecs, key=lambda v: canon(v["forms"]))
    if not vecs:
        raise ToolError("no vectors")
    # each skeleton is replayed in both define spellings: (define f (lambda ...)) and (define (f ...) ...)
    M.replay_vectors(ctx, vecs, sigs_fn, sugar_variants=(False, True))
    for v in vecs:
        ctx.nontrivial_key(v["forms"])
    for v in vecs[:: max(1, len(vecs) // 3)][:3]:
        ctx.sample({"program": " ".join(S.render(f) for f in v["forms"]), "expected": v["results"]})
    ctx.stage("replay", programs=len(vecs), spellings="lambda and define-sugar renderings; direct / rest+car-cdr wrapper / apply call forms", exhaustive=True)
    rng = random.Random(ctx.seed)
    n = 300 if tier == "quick" else 5000
    progs = [G.core_program(rng) for _ in range(n)]
    sugar = [rng.random() < 0.5 for _ in range(n)]
    mism, results = M.validate_programs(ctx, progs, "validate", use_sugar=sugar)
    M.report_mismatches(ctx, progs, mism, sigs_fn)
    for p in progs:
        ctx.nontrivial_key(p)
    ctx.sample({"validated_program": " ".join(S.render(f) for f in progs[0])})
    ctx.stage("validate", programs=n, mismatches=len(mism))
    ctx.assumptions += ["operands of one application are evaluated in an unspecified order: at most one operand carries an observable effect",
                        "integers stay far below 2^31 (overflow behaviour belongs to C09)"]
    return ctx.finish(rule="replay: every program of Programs!CoreFamily (procedure shape x body kind x argument tuple x four call spellings), in two define spellings; "
                           "validate: seeded type-directed random programs (closures to order 3, rest parameters, internal definitions, recursion, apply, map) checked by MachineTrace.tla; non-trivial = distinct program")


def replay(ctx, case):
    return M.generic_replay(ctx, case, sigs_fn)
