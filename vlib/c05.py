# C05 Derived forms behave as R7RS specifies
import random
from .common import *
from . import scheme as S, machine as M, gen as G


def input_classes(forms):
    """named predicates over the INPUT alone (closed vocabulary, see known_findings.json)"""
    out = []
    txt = " ".join(S.render(f) for f in forms)
    return out


def sigs_for(forms, tag=None):
    text = " ".join(S.render(f) for f in forms)
    sigs = [{"kind": "vector", "value": text}]
    for c in G.classes_of_program(forms):
        sigs.append({"kind": "input_class", "value": c})
    return sigs


def run(ctx):
    tier = ctx.tier
    build_harness()
    fam = "derived_quick" if tier == "quick" else "derived_full"
    r = run_tlc("MCMachine.tla", "MCMachine_%s.cfg" % fam, ctx.dir, workers=12, timeout=3000, coverage=(tier == "thorough"))
    require_clean(r, "MCMachine " + fam)
    ctx.add_tlc(r, "MCMachine_" + fam)
    vecs = sorted(r.vecs, key=lambda v: canon(v["forms"]))
    if not vecs:
        raise ToolError("no vectors")
    # ---- replay: every program of the family on the real interpreter
    jobs = [S.program_job(i, v["forms"]) for i, v in enumerate(vecs)]
    results = run_jobs(jobs, ctx.dir, tag="replay", timeout=2400)
    for v, res in zip(vecs, results):
        if res.get("skipped"):
            continue
        ctx.count(evaluations=1, validated=1)
        d = S.compare_program(v["results"], res)
        ctx.nontrivial_key(v["forms"])
        if d:
            k, why, e, o = d
            ctx.violation(sigs_for(v["forms"], v.get("tag")),
                          "%s : form %d %s: specification %s ticks %s; implementation %s" %
                          (" ".join(S.render(f) for f in v["forms"]), k, why, json.dumps(e["r"]), json.dumps(e["out"]), json.dumps(o)),
                          {"stage": "replay", "forms": v["forms"], "expected": v["results"]})
    for v in vecs[:: max(1, len(vecs) // 3)][:3]:
        ctx.sample({"program": " ".join(S.render(f) for f in v["forms"]), "expected": v["results"]})
    ctx.stage("replay", programs=len(vecs), exhaustive=True)
    # ---- validate: random programs nesting derived forms to depth 4, checked by MachineTrace
    rng = random.Random(ctx.seed)
    n = 300 if tier == "quick" else 5000
    progs = [G.derived_program(rng) for _ in range(n)]
    mism, results = M.validate_programs(ctx, progs, "validate")
    for m in mism:
        forms = progs[m["program"]]
        ctx.violation(sigs_for(forms[: m["form"] + 1]),
                      "%s : form %d %s: specification %s ticks %s; implementation %s ticks %s" %
                      (" ".join(S.render(f) for f in forms[: m["form"] + 1]), m["form"], m["why"], json.dumps(m["expected"]),
                       json.dumps(m["expectedTicks"]), json.dumps(m["observed"]), json.dumps(m["observedTicks"])),
                      {"stage": "validate", "forms": forms[: m["form"] + 1]})
    for p in progs:
        ctx.nontrivial_key(p)
    ctx.sample({"validated_program": " ".join(S.render(f) for f in progs[0])})
    ctx.stage("validate", programs=n, mismatches=len(mism))
    ctx.assumptions += ["operands of one application and initialisers of one let may run in any order: at most one of them has an observable effect",
                        "core keywords (if lambda define set! quote ...) are reserved words of Ruschm and are not used as variable names"]
    return ctx.finish(rule="replay: every program of Programs!DerivedFamily (each derived form x truth assignment x context, and every ordered pair nested in every sub-form position), "
                           "compared per form on value and tick sequence; validate: seeded random nestings to depth 4 checked by MachineTrace.tla; non-trivial = distinct program")


def replay(ctx, case):
    forms = case["forms"]
    log("program:", " ".join(S.render(f) for f in forms))
    if case.get("expected"):
        res = run_jobs([S.program_job(0, forms)], ctx.dir, tag="replay1")[0]
        d = S.compare_program(case["expected"], res)
        log("implementation:", json.dumps(res["results"][1:])[:1500])
        log("specification:", json.dumps(case["expected"])[:1500])
        if d:
            ctx.violation(sigs_for(forms), "replayed: differs at form %d (%s)" % (d[0], d[1]), case)
    else:
        mism, results = M.validate_programs(ctx, [forms], "replay1", shards=1)
        log("implementation:", json.dumps(results[0]["results"][1:])[:1500])
        for m in mism:
            log("specification:", json.dumps(m["expected"]), json.dumps(m["expectedTicks"]))
            ctx.violation(sigs_for(forms), "replayed: differs at form %d (%s)" % (m["form"], m["why"]), case)
    return 1 if ctx.nviol else 0
