# C16 Printed values read back as the same values
import random, os, json, struct, concurrent.futures
from .common import *
from . import scheme as S, reader as R, gen as G


def sigs(text):
    return [{"kind": "input", "value": text}]


def expr_of_value(v):
    """Reader-shape value -> source text that builds it inside the interpreter (through quote)"""
    return "'" + text_of_value(v)


def text_of_value(v):
    t = v["t"]
    if t == "int": return str(v["v"])
    if t == "rat": return "%d/%d" % (v["n"], v["d"])
    if t == "bool": return "#t" if v["b"] else "#f"
    if t == "char": return "#\\" + chr(v["c"])
    if t == "sym": return "".join(chr(c) for c in v["cs"])
    if t == "nil": return "()"
    if t == "realtext": return "".join(chr(c) for c in v["cs"])
    if t == "vec": return "#(" + " ".join(text_of_value(x) for x in v["xs"]) + ")"
    if t == "pair":
        parts = []
        while v["t"] == "pair":
            parts.append(text_of_value(v["a"])); v = v["d"]
        if v["t"] != "nil":
            parts += [".", text_of_value(v)]
        return "(" + " ".join(parts) + ")"
    raise ValueError(t)


def print_and_readback(ctx, exprs, tag, chunk=300):
    """evaluates each expression, takes what display writes for the value, reads that text back"""
    jobs = []
    for c in range(0, len(exprs), chunk):
        steps = [{"op": "new", "i": 0, "natives": False}] + [{"op": "eval", "i": 0, "text": e, "print": True} for e in exprs[c:c + chunk]]
        jobs.append({"id": c, "kind": "session", "steps": steps, "continue_after_panic": True})
    res = run_jobs(jobs, ctx.dir, tag=tag + "-print", timeout=3000)
    first = [None] * len(exprs)
    for j, r in zip(jobs, res):
        rs = r["results"][1:]
        for k in range(len(j["steps"]) - 1):
            if not r.get("skipped") and k < len(rs):
                first[j["id"] + k] = rs[k]
    texts = []
    for o in first:
        texts.append("".join(chr(c) for c in o["printed"]) if o and o.get("k") == "value" and "printed" in o else None)
    idx = [i for i, t in enumerate(texts) if t is not None]
    lex, reads = R.run_texts(ctx, [texts[i] for i in idx], tag + "-back")
    back = [None] * len(exprs)
    for k, i in enumerate(idx):
        back[i] = reads[k]
    return first, texts, back


def validate(ctx, items, tag, shards=8):
    """items: list of (label, value (Reader shape), text, readback outcome)"""
    files = []
    for s in range(shards):
        part = items[s::shards]
        path = os.path.join(ctx.dir, "%s.trace%d.ndjson" % (tag, s))
        with open(path, "w") as f:
            for (_, v, t, b) in part:
                f.write(json.dumps({"value": v, "text": [ord(c) for c in t], "readback": R.conv_read(b)}, separators=(",", ":")) + "\n")
        files.append((path, part))

    def one(s):
        return run_tlc("PrinterTrace.tla", "PrinterTrace.cfg", ctx.dir, tag="%s.pt%d" % (tag, s), workers=1, timeout=3000,
                       xss="512m", xmx="3g", env={"TRACE": files[s][0]}, want_tags=("MISMATCH",))
    bad = []
    with concurrent.futures.ThreadPoolExecutor(max_workers=shards) as ex:
        for s, tr in enumerate(ex.map(one, range(shards))):
            if not files[s][1]:
                continue
            done = [m for m in tr.msgs if m[0] == "DONE"]
            if tr.error or tr.violation or not done or done[0][1]["events"] != len(files[s][1]):
                tail = "".join(open(tr.path, errors="replace").readlines()[-25:])
                raise ToolError("PrinterTrace shard %d did not consume its trace: %s %s\n%s" % (s, tr.error, tr.violation, tail))
            ctx.add_tlc(tr, "PrinterTrace:%s:%d" % (tag, s))
            if not done[0][1]["injective"]:
                bad.append((files[s][1][0][0], {"why": "two distinct values of this trace print the same text", "text": [], "value": {}}))
            for m in tr.vecs:
                bad.append((files[s][1][m["event"] - 1][0], m))
    ctx.count(evaluations=len(items), validated=len(items))
    return bad


def run(ctx):
    tier = ctx.tier
    build_harness()
    r = run_tlc("MCPrinter.tla", "MCPrinter_%s.cfg" % tier, ctx.dir, workers=12, timeout=3000, xss="256m")
    require_clean(r, "MCPrinter")
    ctx.add_tlc(r, "MCPrinter (Read(Print(v)) = v on the bounded universe)")
    vecs = sorted(r.vecs, key=canon)
    # ---- replay: each value of the universe is built in the interpreter; display must write exactly Print(v)
    exprs = [expr_of_value(v["value"]) for v in vecs]
    first, texts, back = print_and_readback(ctx, exprs, "universe")
    items = []
    for v, e, o, t, b in zip(vecs, exprs, first, texts, back):
        want = "".join(chr(c) for c in v["text"])
        ctx.nontrivial_key(want)
        if t is None:
            ctx.violation(sigs(e), "%s: cannot be built/printed: %s" % (e, json.dumps(o)[:300]), {"stage": "universe", "expr": e})
            continue
        if t != want and "quote" not in want:
            # (a list headed by quote may legitimately be written with the abbreviation; it is judged by reading back)
            ctx.violation(sigs(e), "%s: display writes %r, the specification's Print gives %r" % (e, t, want), {"stage": "universe", "expr": e})
            continue
        items.append((e, v["value"], t, b))
    bad = validate(ctx, items, "universe")
    for lab, m in bad:
        ctx.violation(sigs(lab), "%s: %s (text %r)" % (lab, m["why"], "".join(chr(c) for c in m.get("text", []))), {"stage": "universe", "expr": lab})
    ctx.stage("replay", values=len(vecs), exhaustive=True)
    ctx.sample({"value_text": "".join(chr(c) for c in vecs[len(vecs) // 2]["text"])})
    # ---- validate: random value trees over boundary integers, ratios, every binary32 class, results of arithmetic
    rng = random.Random(ctx.seed)
    n = 300 if tier == "quick" else 5000
    exprs = [G.value_expr(rng, rng.randint(0, 5)) for _ in range(n)]
    first, texts, back = print_and_readback(ctx, exprs, "random")
    items = []
    for e, o, t, b in zip(exprs, first, texts, back):
        ctx.nontrivial_key(e)
        if t is None:
            if o is not None and o.get("k") != "value":
                ctx.violation(sigs(e), "%s: building the value failed: %s" % (e, json.dumps(o)[:300]), {"stage": "random", "expr": e})
            continue
        items.append((e, R.conv_value(o["v"]), t, b))
    bad = validate(ctx, items, "random")
    for lab, m in bad:
        ctx.violation(sigs(lab), "%s: %s (text %r)" % (lab, m["why"], "".join(chr(c) for c in m.get("text", []))), {"stage": "random", "expr": lab})
    ctx.stage("validate", values=len(items))
    ctx.sample({"value_expr": exprs[0][:200]})
    ctx.assumptions += ["strings, non-finite reals and symbols that need bars are outside the claim",
                        "the spelling of a real is the implementation's; it must read back (by the specification's reader: faithfully; by the implementation's reader: to the same bits)"]
    return ctx.finish(rule="replay: every value tree of MCPrinter's universe (depth <= 2) built in the interpreter, display text compared with Printer!PrintV and read back; "
                           "validate: random value trees (depth <= 5, width <= 6) over boundary integers, ratios, all binary32 classes and arithmetic results, judged by PrinterTrace.tla; non-trivial = distinct value")


def replay(ctx, case):
    e = case["expr"]
    first, texts, back = print_and_readback(ctx, [e], "replay1")
    log("expression:", e); log("value:", json.dumps(first[0])[:600]); log("printed:", repr(texts[0])); log("read back:", json.dumps(back[0])[:600])
    if texts[0] is not None:
        bad = validate(ctx, [(e, R.conv_value(first[0]["v"]), texts[0], back[0])], "replay1", shards=1)
        for lab, m in bad:
            ctx.violation(sigs(e), m["why"], case)
    return 1 if ctx.nviol else 0
