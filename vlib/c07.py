# C07 No input can crash the interpreter
import random, itertools, os, glob, concurrent.futures
from .common import *
from . import scheme as S, reader as R, gen as G

ALPHABET = "()'#.+-10ae/\"; \n|\\tx"      # the 20 characters of MCTotal.tla
GROUP = 25                                 # inputs evaluated one after the other on one interpreter

VOCAB = ["(", ")", "(", ")", "(", ")", "'", ".", "#(", "define", "lambda", "if", "set!", "quote", "let", "let*", "cond", "case", "and", "or", "when", "unless",
         "begin", "else", "=>", "define-syntax", "syntax-rules", "...", "_", "import", "define-library", "export", "only", "prefix", "rename", "except",
         "(scheme base)", "car", "cdr", "cons", "list", "vector", "vector-ref", "vector-set!", "make-vector", "apply", "map", "for-each", "append", "+", "-", "*", "/",
         "=", "<", "floor", "exact", "sqrt", "abs", "max", "min", "floor-quotient", "floor-remainder", "not", "eqv?", "equal?", "null?", "list-tail", "memv",
         "x", "y", "f", "0", "1", "-1", "2147483647", "-2147483648", "99999999999", "1/0", "1/", "1/2", "-3/4", "1e", "1e400", "1e-400", "1.5", ".5", "+.", "-", "#t", "#f",
         "#\\a", "#\\", "#", "\"s\"", "\"", "|a b|", "|", "'()", "#u8(", "`", ",", ",@", "#;", "#|", "1.e1", "+inf.0", "-0.0", "a.b", "..", "#true", "#\\space", "#e1.5", "#x1F"]


def outcome_kind(o):
    if o is None:
        return {"k": "skipped"}
    k = o.get("k")
    if k == "value":
        v = o["v"]
        return {"k": "value", "v": {"t": "int", "v": v["v"]} if v.get("t") == "int" else {"t": v.get("t", "?")}}
    if k == "error":
        return {"k": "error", "kind": o["kind"]}
    if k == "none":
        return {"k": "none"}
    return {"k": k or "?", "site": o.get("site", ""), "status": str(o.get("status", ""))}


# the sanity form: a variable lookup and a procedure call whose meaning no generated input can change (the name is
# outside every generator's alphabet; tick! or car can be redefined by a mutated program)
SANITY = "(%verif-sanity-7f3a 3)"


def evaluate_inputs(ctx, texts, tag, group=GROUP):
    """each text on a long-lived interpreter (GROUP texts per interpreter), each followed by the sanity form"""
    jobs = []
    for c in range(0, len(texts), group):
        steps = [{"op": "new", "i": 0}]
        for t in texts[c:c + group]:
            steps.append({"op": "eval", "i": 0, "text": t})
            steps.append({"op": "eval", "i": 0, "text": SANITY})
        jobs.append({"id": c, "kind": "session", "steps": steps, "renew_after_panic": True})
    res = run_jobs(jobs, ctx.dir, tag=tag, timeout=3000, job_timeout_ms=4000, per_job_timeout=30)
    outs, sans = [None] * len(texts), [None] * len(texts)
    redo = []
    for j, r in zip(jobs, res):
        n = (len(j["steps"]) - 1) // 2
        if r.get("skipped"):
            continue
        if r.get("crashed") or r.get("timedout"):
            redo += list(range(j["id"], j["id"] + n))          # attribute inside the group: one interpreter per text
            continue
        rs = r["results"][1:]
        for k in range(n):
            if 2 * k + 1 < len(rs):
                outs[j["id"] + k], sans[j["id"] + k] = rs[2 * k], rs[2 * k + 1]
    return outs, sans, redo


def evaluate_alone(ctx, texts, idxs, tag):
    jobs = [{"id": i, "kind": "session", "steps": [{"op": "new", "i": 0}, {"op": "eval", "i": 0, "text": texts[i]}, {"op": "eval", "i": 0, "text": SANITY}]}
            for i in idxs]
    res = run_jobs(jobs, ctx.dir, tag=tag, timeout=3000, job_timeout_ms=4000, per_job_timeout=30)
    out = {}
    for i, r in zip(idxs, res):
        if r.get("skipped"):
            continue
        if r.get("timedout") or r.get("k") == "timeout":
            out[i] = ({"k": "timeout"}, {"k": "timeout"})
        elif r.get("crashed"):
            out[i] = ({"k": "abort", "status": r.get("status")}, {"k": "abort"})
        else:
            rs = r["results"]
            out[i] = (rs[1] if len(rs) > 1 else {"k": "notrun"}, rs[2] if len(rs) > 2 else {"k": "notrun"})
    return out


def anomalous(o, s):
    return o is None or s is None or o.get("k") not in ("value", "none", "error") or \
        not (s.get("k") == "value" and s["v"] == {"t": "int", "v": 3})


def outside_claim(o):
    """non-termination, native stack exhaustion by deep recursion and memory exhaustion are outside the property"""
    return o.get("k") == "timeout" or (o.get("k") == "abort" and o.get("status") in ("stack-overflow", "out-of-memory", "timeout"))


def run_stage(ctx, texts, tag, with_text=True, shards=8):
    outs, sans, redo = evaluate_inputs(ctx, texts, tag)
    need = sorted(set(redo) | {i for i in range(len(texts)) if outs[i] is not None and anomalous(outs[i], sans[i])})
    alone = evaluate_alone(ctx, texts, need, tag + "-alone") if need else {}
    events = []
    skipped = 0
    for i, t in enumerate(texts):
        if i in alone:
            ao, asan = alone[i]
            if outside_claim(ao):
                skipped += 1
                continue
            o = outs[i] if outs[i] is not None else ao
            s = sans[i] if sans[i] is not None else asan
            # a group member disturbed by an earlier member's panic is judged by its run alone
            if i in redo or (outs[i] is not None and anomalous(outs[i], sans[i]) and not anomalous(ao, asan) and outs[i].get("k") in ("value", "none", "error")):
                o, s = ao, asan
            e = {"out": outcome_kind(o), "sanity": outcome_kind(s), "alone": outcome_kind(ao)}
        elif outs[i] is None:
            continue
        else:
            e = {"out": outcome_kind(outs[i]), "sanity": outcome_kind(sans[i]), "alone": outcome_kind(outs[i])}
        e["text"] = [ord(c) for c in t] if (with_text and len(t) <= 300) else []
        events.append((i, e))
    ctx.cov["outside_claim_skipped"] = ctx.cov.get("outside_claim_skipped", 0) + skipped
    files = []
    for sh in range(shards):
        part = events[sh::shards]
        path = os.path.join(ctx.dir, "%s.trace%d.ndjson" % (tag, sh))
        with open(path, "w") as f:
            for _, e in part:
                f.write(json.dumps(e, separators=(",", ":")) + "\n")
        files.append((path, part))

    def one(sh):
        return run_tlc("CrashTrace.tla", "CrashTrace.cfg", ctx.dir, tag="%s.ct%d" % (tag, sh), workers=1, timeout=3000,
                       xss="512m", xmx="3g", env={"TRACE": files[sh][0]}, want_tags=("MISMATCH",))
    nbad = 0
    with concurrent.futures.ThreadPoolExecutor(max_workers=shards) as ex:
        for sh, tr in enumerate(ex.map(one, range(shards))):
            if not files[sh][1]:
                continue
            done = [m for m in tr.msgs if m[0] == "DONE"]
            if tr.error or tr.violation or not done or done[0][1]["events"] != len(files[sh][1]):
                tail = "".join(open(tr.path, errors="replace").readlines()[-25:])
                raise ToolError("CrashTrace shard %d did not consume its trace: %s %s\n%s" % (sh, tr.error, tr.violation, tail))
            ctx.add_tlc(tr, "CrashTrace:%s:%d" % (tag, sh))
            for m in tr.vecs:
                i = files[sh][1][m["event"] - 1][0]
                sig = [{"kind": "input", "value": texts[i]}]
                for part in (m["out"], m["alone"]):
                    if part.get("k") == "panic" and part.get("site"):
                        sig.append({"kind": "panic_site", "value": part["site"]})
                ctx.violation(sig, "input %r: %s (outcome %s, sanity %s, alone %s)" %
                              (texts[i][:200], m["why"], json.dumps(m["out"]), json.dumps(m["sanity"]), json.dumps(m["alone"])),
                              {"stage": tag, "text": texts[i]})
                nbad += 1
    ctx.count(evaluations=len(texts), validated=len(events))
    for t in texts:
        ctx.nontrivial_key(t)
    return nbad, skipped


def token_soup(rng):
    n = rng.randint(1, 12)
    toks = [rng.choice(VOCAB) for _ in range(n)]
    if rng.random() < 0.5:       # balance the parentheses
        depth = 0
        out = []
        for t in toks:
            if t in ("(", "#(", "#u8("):
                depth += 1
            if t == ")":
                if depth == 0:
                    continue
                depth -= 1
            out.append(t)
        toks = out + [")"] * depth
    sep = rng.choice([" ", " ", "\n", ""])
    return sep.join(toks) if sep else " ".join(toks)


def tokens_of_text(text):
    """rough token split used only to mutate (no semantics)"""
    import re
    return re.findall(r'"(?:[^"\\]|\\.)*"|;[^\n]*|#\(|[()\']|[^\s()\'";]+', text)


def mutate(rng, text):
    toks = tokens_of_text(text)
    if not toks:
        return text
    for _ in range(rng.randint(1, 3)):
        i = rng.randrange(len(toks))
        op = rng.choice(["delete", "dup", "swap", "replace", "paren"])
        if op == "delete":
            del toks[i]
        elif op == "dup":
            toks.insert(i, toks[i])
        elif op == "swap" and len(toks) > 1:
            j = rng.randrange(len(toks)); toks[i], toks[j] = toks[j], toks[i]
        elif op == "replace":
            toks[i] = rng.choice(VOCAB)
        else:
            toks.insert(i, rng.choice(["(", ")"]))
        if not toks:
            break
    return " ".join(toks)


def run(ctx):
    tier = ctx.tier
    build_harness()
    binp = build_binary()
    r = run_tlc("MCTotal.tla", "MCTotal_%s.cfg" % tier, ctx.dir, workers=12, timeout=3000, xss="256m")
    require_clean(r, "MCTotal")
    ctx.add_tlc(r, "MCTotal (the specification's reader pipeline is total)")
    rng = random.Random(ctx.seed)
    total_bad = 0
    # ---- every string up to length 4 over the 20-character alphabet
    texts = ["".join(p) for n in range(0, 5) for p in itertools.product(ALPHABET, repeat=n)]
    b, sk = run_stage(ctx, texts, "short", shards=12)
    ctx.stage("short-strings", texts=len(texts), rejected=b, outside_claim=sk, exhaustive=True)
    # ---- token soup over the vocabulary of keywords, builtins and boundary literals
    n = 20000 if tier == "quick" else 300000
    texts = [token_soup(rng) for _ in range(n)]
    b, sk = run_stage(ctx, texts, "soup")
    ctx.stage("token-soup", texts=len(texts), rejected=b, outside_claim=sk)
    ctx.sample({"soup": texts[0]})
    # ---- token-level mutations of valid programs, of the examples and of the bundled sources
    bases = [" ".join(S.render(f) for f in G.derived_program(rng)) for _ in range(150)]
    bases += [" ".join(S.render(f) for f in G.core_program(rng)) for _ in range(150)]
    for p in sorted(glob.glob(os.path.join(REPO, "examples", "*.scm"))) + [os.path.join(REPO, "src/parser/grammar.sld"),
                                                                             os.path.join(REPO, "src/interpreter/library/include/scheme/base.sld"),
                                                                             os.path.join(REPO, "src/interpreter/library/include/scheme/write.sld"),
                                                                             os.path.join(REPO, "tests/test_macros/macro_list.scm")]:
        try:
            bases.append(open(p).read())
        except Exception:
            pass
    m = 3000 if tier == "quick" else 40000
    texts = [mutate(rng, rng.choice(bases)) for _ in range(m)]
    b, sk = run_stage(ctx, texts, "mutations", with_text=False)
    ctx.stage("mutations", texts=len(texts), rejected=b, outside_claim=sk)
    # ---- random Unicode / control characters
    def junk():
        pool = [chr(rng.randint(0, 31)), chr(127), chr(rng.randint(128, 0x2FF)), chr(rng.randint(0x2000, 0x2BFF)), chr(rng.randint(0x1F300, 0x1F6FF)),
                "​", "﻿", "λ", "é", "\x00", "(", ")", " ", "a", "1", "\"", "#", "\\", "'", ";", "|"]
        return "".join(rng.choice(pool) for _ in range(rng.randint(1, 12)))
    texts = [junk() for _ in range(2000 if tier == "quick" else 30000)]
    b, sk = run_stage(ctx, texts, "unicode", with_text=False)
    ctx.stage("unicode", texts=len(texts), rejected=b, outside_claim=sk)
    # ---- faults whose diagnostics mention long values with multi-byte characters at every byte offset: building and
    # printing the message must not crash either
    texts = []
    pads = range(0, 72) if tier == "quick" else range(0, 140)
    for pad in pads:
        for ch in ("\u00e9", "\u4e2d", "\U0001F600"):
            body = "a" * pad + ch * 24
            k = (pad + ord(ch)) % 8
            texts.append(['((lambda (x) x) "%s" 2)', "(car '|%s| 1)", '(vector-ref (vector 1) "%s")', '("%s" 1)', '(+ 1 "%s")', "(car '(%s) '(%s))",
                          "(%s 1 2)", "(apply (lambda (p q) p) '(\"%s\"))"][k].replace("%s", body))
            if tier != "quick" or pad % 3 == 0:
                texts.append("(define (f%d %s) 1) (f%d)" % (pad, body, pad))
                texts.append("(vector-set! #(1 2) 0 '|%s|)" % body)
    b, sk = run_stage(ctx, texts, "messages", with_text=False)
    ctx.stage("messages", texts=len(texts), rejected=b, outside_claim=sk)
    # ---- macros whose expansion is itself a definition of syntax or of a variable, uses inside uses, redefinition of a
    # macro by its own expansion, macros used before/after redefinition: the expander works on the table it is reading
    mac = ["(define-syntax m (syntax-rules () ((m) (define-syntax k (syntax-rules () ((k) 1)))))) (m) (k)",
           "(define-syntax m (syntax-rules () ((m x) (define x 1)))) (m y) y",
           "(define-syntax m (syntax-rules () ((m) (define-syntax m (syntax-rules () ((m) 2)))))) (m) (m)",
           "(define-syntax m (syntax-rules () ((m a) (let ((t a)) (m2 t))))) (define-syntax m2 (syntax-rules () ((m2 b) (list b)))) (m 1)",
           "(define-syntax m (syntax-rules () ((m) (begin (define-syntax inner (syntax-rules () ((inner) 3))) (inner))))) (m)",
           "(let () (define-syntax loc (syntax-rules () ((loc) 4))) (loc))",
           "(define (f) (define-syntax loc (syntax-rules () ((loc) 5))) (loc)) (f)",
           "(define-syntax m (syntax-rules () ((m) (m)))) 1",
           "(define-syntax when (syntax-rules () ((when c) c))) (when 1)",
           "(define-syntax m (syntax-rules () ((m) (import (scheme base))))) (m)",
           "(define-syntax m (syntax-rules () ((m) (define-syntax)))) (m)",
           "(define-syntax m (syntax-rules (k) ((m k) (define-syntax k (syntax-rules () ((k) 6)))))) (m k) (k)",
           "(define-syntax define-getter (syntax-rules () ((define-getter name v) (define-syntax name (syntax-rules () ((name) v)))))) (define-getter seven 7) (seven)"]
    b, sk = run_stage(ctx, mac, "macro-defining-macros", with_text=False)
    ctx.stage("macro-defining-macros", texts=len(mac), rejected=b, outside_claim=sk)
    # ---- bodies without an expression (empty, or definitions only) in every form that has a body, DEFINED AND THEN USED:
    # whatever the parser lets through, running it must not crash
    bodies = ["", "(define y 1)", "(define y 1) (define z y)", "(define-syntax s (syntax-rules () ((s) 1)))"]
    shapes = [("(define (f) %s)", "(f)"), ("(define (f x) %s)", "(f 1)"), ("(define (f . r) %s)", "(f 1 2)"), ("(define f (lambda () %s))", "(f)"),
              ("(define f (lambda (x) %s))", "(f 1)"), ("(define f (lambda r %s))", "(f)"), ("(let () %s)", "1"), ("(let ((x 1)) %s)", "1"), ("(let* ((x 1) (w x)) %s)", "1"),
              ("((lambda () %s))", "1"), ("((lambda (x) %s) 1)", "1"), ("(when #t %s)", "1"), ("(unless #f %s)", "1"), ("(begin %s)", "1"), ("(cond (#t %s))", "1"),
              ("(cond (else %s))", "1"), ("(case 1 ((1) %s))", "1"), ("(case 1 (else %s))", "1"), ("(define (f) (define (g) %s) (g))", "(f)"), ("(map (lambda (q) %s) '(1 2))", "1"),
              ("(apply (lambda () %s) '())", "1"), ("(define-syntax mm (syntax-rules () ((mm) (lambda () %s)))) (define f (mm))", "(f)")]
    texts = ["%s %s %s" % (d % b, u, u) for (d, u) in shapes for b in bodies]
    b, sk = run_stage(ctx, texts, "empty-bodies", with_text=False)
    ctx.stage("empty-bodies", texts=len(texts), rejected=b, outside_claim=sk)
    # ---- escapes: \x<hex>; in strings and |identifiers|, #\x<hex> characters, named characters and the other string escapes,
    # at the boundaries of the Unicode scalar values (surrogates, 10FFFF + 1, more digits than a code point has), with the
    # terminator missing, with no digits, cut off by the end of the input
    hexes = ["0", "00", "7f", "80", "ff", "41", "3bb", "D7FF", "d800", "D800", "DBFF", "dc00", "DFFF", "dfff", "E000", "FFFF", "10000", "10FFFF", "10ffff",
             "110000", "7FFFFFFF", "80000000", "FFFFFFFF", "100000000", "FFFFFFFFFFFFFFFFFF", "", "g", "4g", "-1", "+41", " 41", "0x41"]
    texts = []
    for hx in hexes:
        for wrap in ('"\\x%s;"', '"a\\x%s;b"', '"\\x%s"', '"\\x%s', '"\\X%s;"', "'|\\x%s;|", "'|a\\x%s;|", "'|\\x%s|", "#\\x%s", "(list #\\x%s)", "#\\x%s;",
                     '(display "\\x%s;")', "(define s \"\\x%s;\") s"):
            texts.append(wrap % hx)
    for esc in ["a", "b", "t", "n", "r", "0", "\\", '"', "|", "x", "u", "U0001F600", "N{DEGREE SIGN}", "\n", " \n  ", "\t", "1", "é", "☃", "😀"]:
        texts.append('"%s%s"' % ("\\", esc)); texts.append('"a%s%sb" 1' % ("\\", esc)); texts.append("'|%s%s|" % ("\\", esc))
    for nm in ["alarm", "backspace", "delete", "escape", "newline", "null", "return", "space", "tab", "nul", "linefeed", "altmode", "rubout", "Space", "SPACE", "spac", "spaces", "x", "xx", "U+41", "λ", "😀", ""]:
        texts.append("#\\%s" % nm); texts.append("(list #\\%s 1)" % nm)
    b, sk = run_stage(ctx, texts, "escapes", with_text=False)
    ctx.stage("escapes", texts=len(texts), rejected=b, outside_claim=sk)
    # ---- builtins that call back into the program (apply, map, for-each, the folds), handed procedures that assign or
    # define global variables, redefine the very builtin that is running, call it again, or fail - in tail and non-tail position
    defs = "(define n 0) (define (bump! k) (set! n (+ n k)) n) (define (redef! k) (define fresh-global k) (set! n k) k) "
    callers = ["(apply %s '(2))", "(apply %s 1 '())", "(map %s '(1 2))", "(for-each %s '(1 2))", "(fold-left (lambda (a x) (%s x)) 0 '(1 2))",
               "(fold-right (lambda (x a) (%s x)) 0 '(1 2))", "(apply apply (list %s '(3)))", "(map (lambda (q) (apply %s (list q))) '(1 2))"]
    procs = ["bump!", "redef!", "(lambda (k) (set! apply car) k)", "(lambda (k) (set! map 1) (set! for-each 2) k)", "(lambda (k) (define apply 1) k)",
             "(lambda (k) (set! n (apply + (list k n))) n)", "(lambda (k) (car k))", "(lambda (k) (set! bump! redef!) (bump! k))"]
    ctxs = ["%s", "(+ 1 (car (list %s)))", "(list %s n)", "(let ((r %s)) (list r n))", "(define (go) %s) (go)", "(if #t %s 0)"]
    texts = [defs + (c % (k % pr)) for k in callers for pr in procs for c in (ctxs if tier != "quick" else ctxs[:3])]
    b, sk = run_stage(ctx, texts, "reentrancy", with_text=False)
    ctx.stage("reentrancy", texts=len(texts), rejected=b, outside_claim=sk)
    # ---- every builtin on boundary operands: the extreme exact integers, ratios with extreme components, zero of both
    # signs, huge and tiny reals, and a few non-numbers - a value or a reported error, never a crash
    nums = ["-2147483648", "-2147483647", "-1", "0", "1", "2", "2147483647", "65536", "46341", "-1/2", "1/2147483647", "-2147483648/3", "2147483647/2",
            "0.0", "-0.0", "1.5", "3.4028235e38", "-3.4028235e38", "1e-45", "16777217.0", "(/ 0. 0.)", "(/ 1. 0.)", "'a", "\"s\"", "'()", "#t"]
    unary = ["-", "/", "abs", "sqrt", "exp", "ln", "sin", "cos", "tan", "asin", "acos", "atan", "floor", "ceiling", "exact", "+", "*", "max", "min",
             "number?", "integer?", "zero?", "vector", "list", "not"]
    binary = ["+", "-", "*", "/", "=", "<", ">", "<=", ">=", "max", "min", "floor-quotient", "floor-remainder", "log", "atan2", "eqv?", "eq?", "equal?",
              "make-vector", "cons", "expt", "quotient", "remainder", "modulo", "list-tail", "list-ref", "vector-ref"]
    texts = ["(%s %s)" % (o, a) for o in unary for a in nums if not (o == "make-list" and a in ("2147483647", "65536", "46341"))]
    pairs = [(a, b) for a in nums for b in nums]
    if tier == "quick":
        pairs = [p_ for p_ in pairs if p_[0] in nums[:8] or p_[1] in nums[:8]]
    for o in binary:
        for a, b2 in pairs:
            if o in ("make-vector", "make-list") and a in ("2147483647", "65536", "46341"):
                continue          # (allocating a gigabyte is not a crash of the interpreter but of the sandbox)
            if o in ("list-tail", "list-ref", "vector-ref"):
                a = "(list 1 2)" if o != "vector-ref" else "(vector 1 2)"
            texts.append("(%s %s %s)" % (o, a, b2))
    texts += ["(%s %s %s %s)" % (o, a, b2, c) for o in ("+", "-", "*", "/", "<", "max") for a in nums[:7] for b2 in nums[:7] for c in ("-1", "0", "2147483647", "-2147483648")]
    # (make-list with a count that is not a non-negative integer never terminates: outside the claim, and slow to establish)
    texts += ["(make-list %s %s)" % (k, a) for k in ("0", "1", "2") for a in nums]
    texts += ["(vector-set! (vector 1 2) %s 0)" % a for a in nums] + ["(vector-ref '#(1 2) %s)" % a for a in nums] + ["(make-vector %s)" % a for a in nums[:5]]
    texts = sorted(set(texts))
    b, sk = run_stage(ctx, texts, "boundaries", with_text=False)
    ctx.stage("boundaries", texts=len(texts), rejected=b, outside_claim=sk)
    # ---- files: programs and libraries that are not valid UTF-8, mutated library sources imported
    fdir = os.path.join(ctx.dir, "files")
    shutil.rmtree(fdir, ignore_errors=True); os.makedirs(fdir)
    jobs, labels = [], []
    for k in range(60 if tier == "quick" else 600):
        kind = rng.choice(["badprog", "badlib", "mutlib", "truncprog"])
        d = os.path.join(fdir, "c%d" % k); os.makedirs(d)
        prog = os.path.join(d, "main.scm")
        if kind == "badprog":
            data = b"(define x 1)\n(display x)\n"
            pos = rng.randrange(len(data) + 1)
            open(prog, "wb").write(data[:pos] + bytes([rng.choice([0xff, 0xfe, 0xc3, 0x80, 0xe2])]) + data[pos:])
        elif kind == "truncprog":
            src = rng.choice(bases).encode()
            open(prog, "wb").write(src[:rng.randrange(len(src) + 1)])
        else:
            lib = "(define-library (lib)\n (import (scheme base))\n (export f)\n (begin (define (f x) (+ x 1))))\n"
            if kind == "badlib":
                b_ = lib.encode(); pos = rng.randrange(len(b_))
                open(os.path.join(d, "lib.sld"), "wb").write(b_[:pos] + b"\xff\xfe" + b_[pos:])
            else:
                open(os.path.join(d, "lib.sld"), "w").write(mutate(rng, lib))
            open(prog, "w").write("(import (scheme base) (lib))\n(f 1)\n")
        jobs.append({"id": k, "kind": "session", "steps": [{"op": "new", "i": 0}, {"op": "evalfile", "i": 0, "path": prog}, {"op": "eval", "i": 0, "text": SANITY}]})
        labels.append((kind, prog))
    res = run_jobs(jobs, ctx.dir, tag="files", timeout=3000, job_timeout_ms=4000)
    nb = 0
    for (kind, prog), rr in zip(labels, res):
        if rr.get("skipped"):
            continue
        ctx.count(evaluations=1, validated=1)
        rs = rr["results"]
        o = rs[1] if len(rs) > 1 else {"k": "abort" if rr.get("crashed") else "notrun", "status": rr.get("status")}
        s_ = rs[2] if len(rs) > 2 else {"k": "notrun"}
        if outside_claim(o):
            continue
        if anomalous(o, s_):
            data = open(prog, "rb").read()
            sig = [{"kind": "input", "value": "%s file %r" % (kind, data[:120])}]
            if o.get("k") == "panic":
                sig.append({"kind": "panic_site", "value": o.get("site")})
            ctx.violation(sig, "%s %s: eval_file ended with %s, sanity %s" % (kind, prog, json.dumps(outcome_kind(o)), json.dumps(outcome_kind(s_))),
                          {"stage": "files", "kind": kind, "bytes": list(data)})
            nb += 1
        # the command-line driver on the same file: never killed by a signal / panic exit status 101
        p = subprocess.run([binp, prog], cwd=ctx.dir, stdout=subprocess.PIPE, stderr=subprocess.PIPE, timeout=30)
        if p.returncode < 0 or p.returncode == 101:
            ctx.violation([{"kind": "input", "value": "cli %s file %r" % (kind, open(prog, "rb").read()[:120])}],
                          "ruschm %s: exit status %d, stderr %r" % (prog, p.returncode, p.stderr[-300:]), {"stage": "files-cli", "kind": kind, "bytes": list(open(prog, "rb").read())})
            nb += 1
    shutil.rmtree(fdir, ignore_errors=True)
    ctx.stage("files", cases=len(jobs), rejected=nb)
    ctx.assumptions += ["nesting depth of generated inputs stays small; native stack exhaustion by deep recursion, non-termination (4 s watchdog) and memory exhaustion are outside the claim and are counted as skipped, never as violations",
                        "a panic is observed by catch_unwind in the harness and by exit status 101 / a signal for the binary"]
    return ctx.finish(rule="every string up to length 4 over a 20-character alphabet, token soups over keywords/builtins/boundary literals, token-level mutations of valid programs, of the examples and of the bundled sources, "
                           "random Unicode/control characters, invalid-UTF-8 and truncated program/library files; each input on a long-lived interpreter followed by a sanity form; CrashTrace.tla demands value-or-reported-error, "
                           "a working interpreter afterwards and (from the specification's total reader) an error for every lexically invalid text; non-trivial = distinct input")


def replay(ctx, case):
    if "text" in case:
        t = case["text"]
        al = evaluate_alone(ctx, [t], [0], "replay1")
        log("input:", repr(t)); log("alone on a fresh interpreter:", json.dumps(al.get(0))[:1500])
        o, s_ = al.get(0, ({"k": "skipped"}, {"k": "skipped"}))
        if not outside_claim(o) and anomalous(o, s_):
            ctx.violation([{"kind": "input", "value": t}], "replayed: still not a value or reported error", case)
    else:
        log("file case", case.get("kind"), "bytes:", bytes(case["bytes"])[:200])
        return 1
    return 1 if ctx.nviol else 0
