# Seeded, type-directed random program generators (driver side of the impl -> spec direction).
# Programs are terminating and fault-free unless a fault is injected on purpose; side effects
# (tick!) are placed so that the evaluation orders R7RS leaves open cannot be observed:
# at most one operand of an application / one initialiser of a let carries an effect.
import random
from . import scheme as S
from .scheme import *

NAMES = ["a", "b", "c", "d", "e", "g", "h", "k", "m", "n", "p", "q", "r", "s", "u", "w", "x", "y", "z", "temp", "result", "key", "test"]
PROCNAMES = ["f", "f1", "f2", "f3", "loop", "helper", "go", "make"]


class Scope:
    def __init__(self, parent=None):
        self.vars = {}          # name -> type
        self.parent = parent

    def lookup_all(self):
        out = {}
        s = self
        chain = []
        while s is not None:
            chain.append(s); s = s.parent
        for s in reversed(chain):
            out.update(s.vars)
        return out

    def child(self):
        return Scope(self)


# types: "int", "bool", "sym", "list" (of int), ("fn", [argtypes], rettype, variadic)
class Gen:
    def __init__(self, rng, ticks=True, derived=True, maxdepth=4, forbid=()):
        self.rng = rng
        self.ticks = ticks
        self.derived = derived
        self.maxdepth = maxdepth
        self.label = 0
        self.forbid = set(forbid)
        self.fresh_n = 0

    # ---- helpers
    def lab(self):
        self.label += 1
        return self.label

    def fresh(self, scope, pool=NAMES):
        used = scope.lookup_all()
        cands = [n for n in pool if n not in self.forbid]
        self.rng.shuffle(cands)
        for n in cands:
            if n not in scope.vars:
                return n
        self.fresh_n += 1
        return "v%d" % self.fresh_n

    def maybe_tick(self, e, eff):
        if eff and self.ticks and self.rng.random() < 0.6:
            return tick(self.lab(), e)
        return e

    def vars_of(self, scope, ty):
        return [n for n, t in scope.lookup_all().items() if t == ty]

    # ---- expressions
    def expr(self, ty, scope, depth, eff=True):
        r = self.rng
        if depth <= 0:
            return self.leaf(ty, scope, eff)
        choices = ["leaf", "if", "call", "lambda-call", "prim"]
        if self.derived:
            choices += ["let", "letstar", "begin", "cond", "case", "and-or", "when"] * 1
        c = r.choice(choices)
        if c == "leaf":
            return self.leaf(ty, scope, eff)
        if c == "if":
            return if_(self.expr("bool", scope, depth - 1, eff) if r.random() < 0.7 else self.expr("int", scope, depth - 1, eff),
                       self.expr(ty, scope, depth - 1, eff), self.expr(ty, scope, depth - 1, eff))
        if c == "prim":
            return self.prim(ty, scope, depth, eff)
        if c == "call":
            fns = [(n, t) for n, t in scope.lookup_all().items() if isinstance(t, tuple) and t[2] == ty]
            if fns:
                n, t = r.choice(fns)
                return self.call(var(n), t, scope, depth, eff)
            return self.prim(ty, scope, depth, eff)
        if c == "lambda-call":
            nargs = r.randint(0, 3)
            argt = [r.choice(["int", "int", "bool", "list"]) for _ in range(nargs)]
            variadic = r.random() < 0.3
            f, t = self.lambda_(argt, ty, variadic, scope, depth - 1, eff)
            return self.call(f, t, scope, depth, eff)
        if c == "let":
            k = r.randint(0, 3)
            tys = [r.choice(["int", "bool", "list"]) for _ in range(k)]
            effi = r.randrange(k) if k else -1
            inner = scope.child()
            bs = []
            for i, t in enumerate(tys):
                n = self.fresh(inner)
                inner.vars[n] = t          # (reserved at once: let variables must be distinct)
                bs.append((n, self.expr(t, scope, depth - 1, eff and i == effi), t))
            return let([(n, e) for n, e, _ in bs], self.body(ty, inner, depth - 1, eff))
        if c == "letstar":
            k = r.randint(0, 3)
            cur = scope
            bs = []
            for i in range(k):
                t = r.choice(["int", "bool", "list"])
                e = self.expr(t, cur, depth - 1, eff)
                cur = cur.child()
                n = self.fresh(cur)
                cur.vars[n] = t
                bs.append((n, e))
            return letstar(bs, self.body(ty, cur.child(), depth - 1, eff))
        if c == "begin":
            return begin(*self.body(ty, scope, depth - 1, eff))
        if c == "cond":
            ncl = r.randint(1, 3)
            cls = []
            for _ in range(ncl):
                kind = r.random()
                if kind < 0.2:
                    # (test => receiver)
                    tt = r.choice(["int", "list"])
                    test = self.expr(tt, scope, depth - 1, eff) if r.random() < 0.5 else if_(self.expr("bool", scope, depth - 1, eff), self.expr(tt, scope, 0, False), lit(False))
                    f, _ = self.lambda_([tt], ty, False, scope, depth - 1, eff)
                    f = self.maybe_tick(f, eff)      # the receiver expression itself may have an effect
                    cls.append(clause(test, [f], arrow=True))
                else:
                    cls.append(clause(self.expr("bool", scope, depth - 1, eff), self.body(ty, scope, depth - 1, eff)))
            if cls[-1]["arrow"] and r.random() < 0.5:
                # => clause in last position, no else: the value may be unspecified - use it for effect only
                return begin(cond(cls), self.expr(ty, scope, depth - 1, eff))
            return cond(cls, els=self.body(ty, scope, depth - 1, eff))
        if c == "case":
            key = self.expr("int", scope, depth - 1, eff)
            ncl = r.randint(1, 3)
            cls = []
            pool = list(range(-2, 8))
            r.shuffle(pool)
            for i in range(ncl):
                ds = [vint(pool.pop()) for _ in range(r.randint(1, 3))]
                if r.random() < 0.2:
                    f, _ = self.lambda_(["int"], ty, False, scope, depth - 1, eff)
                    f = self.maybe_tick(f, eff)
                    cls.append(cclause(ds, [f], arrow=True))
                else:
                    cls.append(cclause(ds, self.body(ty, scope, depth - 1, eff)))
            if r.random() < 0.15:
                f, _ = self.lambda_(["int"], ty, False, scope, depth - 1, eff)
                return case(key, cls, els=[f], els_arrow=True)
            return case(key, cls, els=self.body(ty, scope, depth - 1, eff))
        if c == "and-or":
            # value of and/or: the last expression has the wanted type; earlier ones are tests arranged so that
            # the result still has the wanted type (and: earlier ones true; or: earlier ones #f) - or the type is bool
            k = r.randint(0, 3)
            if ty == "bool":
                es = [self.expr("bool", scope, depth - 1, eff) for _ in range(k)]
                return (and_ if r.random() < 0.5 else or_)(*es) if k else (and_() if r.random() < 0.5 else or_())
            if r.random() < 0.5:
                es = [self.truthy(scope, depth - 1, eff) for _ in range(k)] + [self.expr(ty, scope, depth - 1, eff)]
                return and_(*es)
            es = [self.falsy(scope, depth - 1, eff) for _ in range(k)] + [self.expr(ty, scope, depth - 1, eff)]
            return or_(*es)
        if c == "when":
            # when/unless yield an unspecified value when not taken: use them for effect inside a begin
            test = self.expr("bool", scope, depth - 1, eff)
            w = (when if r.random() < 0.5 else unless)(test, *self.body("int", scope, depth - 1, eff))
            return begin(w, self.expr(ty, scope, depth - 1, eff))
        return self.leaf(ty, scope, eff)

    def truthy(self, scope, depth, eff):
        return self.expr(self.rng.choice(["int", "list", "sym"]), scope, depth, eff)

    def falsy(self, scope, depth, eff):
        return self.maybe_tick(lit(False), eff) if self.rng.random() < 0.6 else app("not", self.truthy(scope, depth, eff))

    def body(self, ty, scope, depth, eff):
        n = self.rng.choice([1, 1, 2, 3])
        es = [self.expr(self.rng.choice(["int", "bool"]), scope, depth, eff) for _ in range(n - 1)]
        return es + [self.expr(ty, scope, depth, eff)]

    def leaf(self, ty, scope, eff):
        r = self.rng
        vs = self.vars_of(scope, ty)
        if vs and r.random() < 0.6:
            return self.maybe_tick(var(r.choice(vs)), eff)
        if ty == "int":
            return self.maybe_tick(lit(r.randint(-9, 9)), eff)
        if ty == "bool":
            return self.maybe_tick(lit(r.random() < 0.5), eff)
        if ty == "sym":
            return self.maybe_tick(quote(vsym(r.choice(["foo", "bar", "baz"]))), eff)
        if ty == "list":
            return self.maybe_tick(quote(vlist([vint(r.randint(-9, 9)) for _ in range(r.randint(0, 4))])), eff)
        if isinstance(ty, tuple):
            f, _ = self.lambda_(ty[1], ty[2], ty[3], scope, 1, eff)
            return f
        return lit(0)

    def prim(self, ty, scope, depth, eff):
        r = self.rng
        d = depth - 1
        def two(t1, t2):
            # at most one operand carries an effect
            first = r.random() < 0.5
            return self.expr(t1, scope, d, eff and first), self.expr(t2, scope, d, eff and not first)
        if ty == "int":
            op = r.choice(["+", "-", "+3", "car", "length-ish", "if-null", "apply+", "fold"])
            if op in ("+", "-"):
                a, b = two("int", "int")
                return app(op, a, b)
            if op == "+3":
                return app("+", self.expr("int", scope, d, eff), lit(r.randint(0, 5)), lit(r.randint(0, 5)))
            if op == "car":
                return app("car", app("cons", *two("int", "list")))
            if op == "if-null":
                l = self.expr("list", scope, d, eff)
                return if_(app("null?", l), lit(r.randint(0, 9)), lit(r.randint(0, 9)))
            if op == "apply+":
                return app("apply", var("+"), lit(r.randint(0, 5)), self.expr("list", scope, d, eff))
            if op == "fold":
                return app("fold-left", var("+"), lit(0), self.expr("list", scope, d, eff))
            return app("vector-length", app("vector", *[lit(i) for i in range(r.randint(0, 3))]))
        if ty == "bool":
            op = r.choice(["<", "=", "not", "null?", "pair?", "eqv?", "equal?"])
            if op in ("<", "="):
                return app(op, *two("int", "int"))
            if op == "not":
                return app("not", self.expr("bool", scope, d, eff))
            if op in ("null?", "pair?"):
                return app(op, self.expr("list", scope, d, eff))
            if op == "eqv?":
                return app("eqv?", *two("int", "int"))
            return app("equal?", *two("list", "list"))
        if ty == "list":
            op = r.choice(["cons", "list", "cdr", "append", "map", "quote"])
            if op == "cons":
                return app("cons", *two("int", "list"))
            if op == "list":
                k = r.randint(0, 3)
                effi = r.randrange(k) if k else -1
                return app("list", *[self.expr("int", scope, d, eff and i == effi) for i in range(k)])
            if op == "cdr":
                return app("cdr", app("cons", *two("int", "list")))
            if op == "append":
                return app("append", *two("list", "list"))
            if op == "map":
                f, _ = self.lambda_(["int"], "int", False, scope, d, eff)
                return app("map", f, self.expr("list", scope, d, False))
            return self.leaf("list", scope, eff)
        if ty == "sym":
            return self.leaf("sym", scope, eff)
        return self.leaf(ty, scope, eff)

    def lambda_(self, argt, ret, variadic, scope, depth, eff, name_pool=NAMES):
        inner = scope.child()
        ps = []
        for t in argt:
            n = self.fresh(inner)
            inner.vars[n] = t
            ps.append(n)
        rest = ""
        if variadic:
            rest = self.fresh(inner)
            inner.vars[rest] = "list"
        defs = []
        if depth > 0 and self.rng.random() < 0.35:
            for _ in range(self.rng.randint(1, 2)):
                t = self.rng.choice(["int", "list", "bool"])
                n = self.fresh(inner)
                defs.append((n, self.expr(t, inner, depth - 1, eff)))
                inner.vars[n] = t
        body = self.body(ret, inner, depth, eff)
        return lam(ps, body, rest=rest, defs=defs), ("fn", list(argt), ret, variadic)

    def call(self, f, t, scope, depth, eff):
        _, argt, ret, variadic = t
        n = len(argt)
        extra = self.rng.randint(0, 2) if variadic else 0
        effi = self.rng.randrange(n + extra) if (n + extra) else -1
        args = [self.expr(a, scope, depth - 1, eff and i == effi) for i, a in enumerate(argt)]
        args += [self.expr("int", scope, depth - 1, eff and (n + i) == effi) for i in range(extra)]
        if self.rng.random() < 0.2 and f["t"] == "var":
            # direct call vs apply: equivalent spellings
            return app("apply", f, app("list", *args)) if all(not has_tick(a) for a in args[:-1] + args[-1:]) or len(args) <= 1 else app(f, *args)
        return app(f, *args)


def has_tick(e):
    if isinstance(e, dict):
        if e.get("t") == "app" and e["f"].get("t") == "var" and e["f"]["x"] == "tick!":
            return True
        return any(has_tick(v) for v in e.values())
    if isinstance(e, list):
        return any(has_tick(v) for v in e)
    return False


def derived_program(rng, nforms=None, ticks=True):
    g = Gen(rng, ticks=ticks, derived=True, forbid={"atom-key"})
    top = Scope()
    forms = []
    n = nforms or rng.randint(2, 5)
    for i in range(n):
        kind = rng.random()
        if kind < 0.3:
            t = rng.choice(["int", "list", "bool"])
            name = g.fresh(top)
            forms.append(define(name, g.expr(t, top, rng.randint(1, 4))))
            top.vars[name] = t
        elif kind < 0.5:
            argt = [rng.choice(["int", "list", "bool"]) for _ in range(rng.randint(0, 3))]
            ret = rng.choice(["int", "list", "bool"])
            name = g.fresh(top, PROCNAMES)
            f, t = g.lambda_(argt, ret, rng.random() < 0.25, top, rng.randint(1, 3), True)
            forms.append(define(name, f))
            top.vars[name] = t
        else:
            forms.append(g.expr(rng.choice(["int", "list", "bool", "sym"]), top, rng.randint(2, 4)))
    return forms


def classes_of_program(forms):
    """closed vocabulary of input classes used by known findings (predicates over the program text only)"""
    out = set()

    def walk(e, binders):
        if isinstance(e, list):
            for x in e:
                walk(x, binders)
            return
        if not isinstance(e, dict):
            return
        t = e.get("t")
        b2 = binders
        if t == "lam":
            b2 = binders | set(e["ps"]) | ({e["rest"]} if e["rest"] else set()) | {d["x"] for d in e["defs"]}
        if t in ("let", "letstar"):
            b2 = binders | {b["x"] for b in e["bs"]} | {d["x"] for d in e["defs"]}
        if t == "define":
            b2 = binders | {e["x"]}
        if t == "case" and e["key"]["t"] not in ("var", "lit") and "atom-key" in binders:
            out.add("case-with-compound-key-under-binder-named-atom-key")
        if t == "case" and (binders & {"memv"}):
            out.add("case-under-binder-of-memv")
        if t == "unless" and "not" in binders:
            out.add("unless-under-binder-of-not")
        for k, v in e.items():
            if k != "t":
                walk(v, b2)
    walk(forms, set())
    return sorted(out)


# ---- C01: core forms only -------------------------------------------------------------------
def core_program(rng, ticks=True):
    g = Gen(rng, ticks=ticks, derived=False, forbid={"atom-key"})
    top = Scope()
    forms = []
    templates = rng.sample(["adder", "count", "compose", "varsum", "internal", "apply", "shadowdef", "shadowdef", "shadowparam", "shadowparam", "collect", "redefine", "redefine", "sibling", "sibling", "plain", "plain", "plain"], rng.randint(3, 6))
    globals_ = []
    for t in templates:
        if t == "adder":        # closures of order 3
            a, b, c = rng.sample(NAMES, 3)
            forms.append(define("adder", lam([a], [lam([b], [lam([c], [app("+", var(a), var(b), var(c))])])])))
            forms.append(app(app(app("adder", lit(rng.randint(-5, 5))), g.maybe_tick(lit(rng.randint(-5, 5)), True)), lit(rng.randint(-5, 5))))
            top.vars["adder"] = "opaque"
        elif t == "count":      # recursion on a decreasing counter (non-tail and tail)
            n, acc = rng.sample(NAMES, 2)
            forms.append(define("count", lam([n, acc], [if_(app("=", var(n), lit(0)), var(acc), app("count", app("-", var(n), lit(1)), app("+", var(acc), var(n))))])))
            forms.append(define("fact", lam([n], [if_(app("<", var(n), lit(2)), lit(1), app("*", var(n), app("fact", app("-", var(n), lit(1)))))])))
            forms.append(app("list", app("count", lit(rng.randint(0, 12)), lit(0)), app("fact", lit(rng.randint(0, 7)))))
        elif t == "compose":    # higher-order procedures
            f_, g_, x_ = rng.sample(NAMES, 3)
            forms.append(define("compose", lam([f_, g_], [lam([x_], [app(var(f_), app(var(g_), var(x_)))])])))
            inc, _ = g.lambda_(["int"], "int", False, top, 2, True)
            dbl, _ = g.lambda_(["int"], "int", False, top, 2, True)
            forms.append(app(app("compose", inc, dbl), lit(rng.randint(-5, 5))))
            forms.append(app("map", app("compose", var("car"), var("cdr")), quote(vlist([vlist([vint(1), vint(2)]), vlist([vint(3), vint(4), vint(5)])]))))
        elif t == "varsum":     # rest parameters
            a, r_ = rng.sample(NAMES, 2)
            forms.append(define("varsum", lam([a], [app("cons", var(a), app("apply", var("+"), var(r_)))], rest=r_)))
            k = rng.randint(0, 4)
            forms.append(app("varsum", *[lit(rng.randint(-5, 5)) for _ in range(k + 1)]))
            forms.append(app("apply", var("varsum"), lit(1), app("list", *[lit(rng.randint(-5, 5)) for _ in range(rng.randint(0, 3))])))
            forms.append(define("allargs", lam([], [var(r_)], rest=r_)))
            forms.append(app("allargs", *[lit(rng.randint(-5, 5)) for _ in range(rng.randint(0, 4))]))
        elif t == "internal":
            p = rng.choice(NAMES)
            f, ty = g.lambda_(["int", "list"], rng.choice(["int", "list"]), rng.random() < 0.4, top, 3, True)
            name = g.fresh(top, PROCNAMES)
            forms.append(define(name, f))
            top.vars[name] = ty
            forms.append(g.call(var(name), ty, top, 2, True))
        elif t == "shadowdef":
            # an internal definition shadows a name of the enclosing scope for the extent of ONE call of the inner
            # procedure only (inner procedures with 0..2 parameters, called directly / through apply / twice)
            a, r_, extra = rng.sample(NAMES, 3)
            k = rng.randint(0, 2)
            ips = rng.sample([n for n in NAMES if n not in (a, r_, extra)], k)
            inner = lam(ips, [app("list", var(a), *[var(p) for p in ips])], defs=[(a, quote(vsym("inner")))],
                        rest=(extra if rng.random() < 0.3 else ""))
            iargs = [lit(rng.randint(0, 9)) for _ in range(k)]
            call = app("thunk", *iargs) if rng.random() < 0.6 else app("apply", var("thunk"), app("list", *iargs))
            oname = g.fresh(top, PROCNAMES)
            forms.append(define(oname, lam([a], [app("list", var(r_), var(a), call)], defs=[("thunk", inner), (r_, call)])))
            forms.append(app(oname, quote(vsym("outer"))))
            top.vars[oname] = "opaque"
            if rng.random() < 0.5:
                gname = g.fresh(top)
                forms.append(define(gname, quote(vsym("global"))))
                forms.append(define("toplevel-thunk", lam([], [var(gname)], defs=[(gname, quote(vsym("local")))])))
                forms.append(app("list", app("toplevel-thunk"), var(gname)))
                top.vars[gname] = "sym"
        elif t == "sibling":
            # lexical, not dynamic: a procedure's free variable means the binding visible where the procedure was DEFINED,
            # even when the caller - a sibling of the same scope, calling in tail position - binds the same name
            # (as a parameter, a rest parameter or an internal definition)
            x = g.fresh(top)
            callee, caller = g.fresh(top, PROCNAMES), g.fresh(top, PROCNAMES)
            if callee != caller and x not in (callee, caller):
                y = rng.choice([n for n in NAMES if n != x])
                forms.append(define(x, lit(rng.randint(10, 99))))
                top.vars[x] = "int"
                forms.append(define(callee, lam([y], [app("list", var(x), var(y))])))
                kind = rng.choice(["param", "param", "rest", "define", "chain"])
                arg = lit(rng.randint(1, 9))
                if kind == "param":
                    call = app(callee, var(x)) if rng.random() < 0.6 else app("apply", var(callee), app("list", var(x)))
                    forms.append(define(caller, lam([x], [call])))
                elif kind == "rest":
                    forms.append(define(caller, lam([], [app(callee, app("car", var(x)))], rest=x)))
                elif kind == "define":
                    forms.append(define(caller, lam([y], [app(callee, var(y))], defs=[(x, quote(vsym("local")))])))
                else:
                    mid = g.fresh(top, PROCNAMES)
                    if mid in (callee, caller):
                        mid = caller + "2"
                    forms.append(define(mid, lam([x], [if_(app("=", var(x), lit(0)), app(callee, var(x)), app(mid, app("-", var(x), lit(1))))])))
                    forms.append(define(caller, lam([x], [app(mid, var(x))])))
                    top.vars[mid] = "opaque"
                forms.append(app(caller, arg))
                forms.append(app("list", app(caller, arg), var(x)))
                top.vars[callee] = "opaque"; top.vars[caller] = "opaque"
        elif t == "collect":
            # closures made in the iterations of a self-tail-call loop each keep the bindings of THEIR iteration
            i_, acc_ = rng.sample(NAMES, 2)
            extra = rng.random() < 0.5
            body_thunk = lam([], [app("list", var(i_), var("twice"))]) if extra else lam([], [var(i_)])
            forms.append(define("collect", lam([i_, acc_], [if_(app("=", var(i_), lit(0)), var(acc_),
                                                           app("collect", app("-", var(i_), lit(1)), app("cons", body_thunk, var(acc_))))],
                                               defs=([("twice", app("*", lit(2), var(i_)))] if extra else []))))
            forms.append(app("map", lam(["th"], [app(var("th"))]), app("collect", lit(rng.randint(1, 5)), quote(NIL))))
            top.vars["collect"] = "opaque"
        elif t == "redefine":
            # a procedure's reference to its own name is a reference to the VARIABLE: after the variable is redefined or
            # assigned, the old procedure (still reachable through an alias) calls the new one
            w, alias = g.fresh(top, PROCNAMES), g.fresh(top, PROCNAMES)
            if w != alias:
                n_ = rng.choice(NAMES)
                forms.append(define(w, lam([n_], [if_(app("=", var(n_), lit(0)), quote(vsym("old")), app(w, app("-", var(n_), lit(1))))])))
                forms.append(define(alias, var(w)))
                forms.append(app(alias, lit(rng.randint(0, 3))))
                if rng.random() < 0.5:
                    forms.append(define(w, lam([n_], [quote(vsym("new"))])))
                else:
                    forms.append(set_(w, lam([n_], [quote(vsym("assigned"))])))
                forms.append(app("list", app(alias, lit(0)), app(alias, lit(rng.randint(1, 3))), app(w, lit(2))))
                top.vars[w] = "opaque"; top.vars[alias] = "opaque"
            # a closure three frames below the top level calls a top-level procedure by name: the name is looked up when
            # the call happens, so a redefinition between two calls of the same closure is seen
            sc, mk, hh = g.fresh(top, PROCNAMES), g.fresh(top, PROCNAMES), g.fresh(top, PROCNAMES)
            if len({sc, mk, hh}) == 3:
                a_, b_, c_ = rng.sample(NAMES, 3)
                forms.append(define(sc, lam(["n"], [app("*", var("n"), lit(2))])))
                forms.append(define(mk, lam([a_], [lam([b_], [lam([c_], [app(sc, app("+", var(a_), var(b_), var(c_)))])])])))
                forms.append(define(hh, app(app(mk, lit(1)), lit(2))))
                forms.append(app(hh, lit(3)))
                forms.append(define(sc, lam(["n"], [app("*", var("n"), lit(10))])) if rng.random() < 0.5 else set_(sc, lam(["n"], [app("-", var("n"))])))
                forms.append(app("list", app(hh, lit(3)), app(app(app(mk, lit(1)), lit(2)), lit(3))))
                for nm in (sc, mk, hh):
                    top.vars[nm] = "opaque"
            once = g.fresh(top, PROCNAMES)
            forms.append(define(once, lam([], [set_(once, lam([], [quote(vsym("again"))])), quote(vsym("first"))])))
            forms.append(app("list", app(once), app(once), app(once)))
            top.vars[once] = "opaque"
        elif t == "shadowparam":
            # parameters (fixed and rest) named like top-level variables: binding them on a call - with any number of
            # arguments, zero included - must not touch the top-level bindings, which are read again at the end
            k = rng.randint(0, 2)
            names = rng.sample(NAMES, k + 1)
            for nm in names:
                if nm not in top.vars:
                    forms.append(define(nm, quote(vsym("global-" + nm))))
                    top.vars[nm] = "sym"
                    globals_.append(nm)
            fixed, rest = names[:k], (names[k] if rng.random() < 0.7 else "")
            pname = g.fresh(top, PROCNAMES)
            body = [app("list", *[var(n) for n in fixed], *([var(rest)] if rest else []))]
            if rng.random() < 0.3:
                body = [app(lam([], body))]        # read through a thunk created inside the call
            forms.append(define(pname, lam(fixed, body, rest=rest)))
            top.vars[pname] = "opaque"
            for _ in range(rng.randint(1, 2)):
                extra = rng.randint(0, 2) if rest else 0
                args = [lit(rng.randint(0, 9)) for _ in range(k + extra)]
                forms.append(app(pname, *args) if rng.random() < 0.6 else app("apply", var(pname), app("list", *args)))
            forms.append(app("list", *[var(n) for n in names]))
        elif t == "apply":
            f, ty = g.lambda_(["int", "int"], "int", False, top, 2, True)
            forms.append(app("apply", f, app("list", lit(rng.randint(-5, 5)), lit(rng.randint(-5, 5)))))
            forms.append(app("apply", f, lit(rng.randint(-5, 5)), quote(vlist([vint(rng.randint(-5, 5))]))))
            forms.append(app("apply", f, lit(rng.randint(-5, 5)), lit(rng.randint(-5, 5)), quote(NIL)))           # both arguments before the (empty) list
            g3 = lam(["p", "q"], [app("list", var("p"), var("q"), var("more"))], rest="more")
            forms.append(app("apply", g3, lit(1), lit(2), app("list", *[lit(k) for k in range(3, 3 + rng.randint(0, 3))])))
            forms.append(app("apply", var("-"), lit(rng.randint(10, 20)), lit(rng.randint(1, 5)), app("list", lit(rng.randint(1, 5)))))
        else:
            if rng.random() < 0.4:
                t_ = rng.choice(["int", "list", "bool"])
                name = g.fresh(top)
                forms.append(define(name, g.expr(t_, top, rng.randint(1, 4))))
                top.vars[name] = t_
            else:
                forms.append(g.expr(rng.choice(["int", "list", "bool", "sym"]), top, rng.randint(2, 4)))
    if globals_:
        forms.append(app("list", *[var(n) for n in globals_]))
    return forms


# ---- C08: a valid program with one injected fault -------------------------------------------
FAULTS = {
    "NonProcedure": lambda r: app(lit(r.randint(0, 9)), lit(1)),
    "ArityMany": lambda r: app(lam(["fa"], [var("fa")]), lit(1), lit(2)),
    "ArityFew": lambda r: app(lam(["fa", "fb"], [var("fa")]), lit(1)),
    "ArityNamed": lambda r: app("proc-one", lit(1), lit(2)),
    "ArityNamedFew": lambda r: app("proc-one"),
    "ArityRest": lambda r: app(lam(["fa", "fb"], [var("fa")], rest="fr"), lit(1)),
    "ArityPrim": lambda r: app("cons", lit(1)),
    "ArityThunk": lambda r: app(lam([], [lit(r.randint(0, 9))]), lit(5)),
    "ArityApply": lambda r: app("apply", var("proc-one"), quote(vlist([vint(1), vint(2)]))),
    "UnboundRead": lambda r: var("undefined-variable"),
    "UnboundAssign": lambda r: set_("undefined-variable", lit(1)),
    "WrongType": lambda r: r.choice([app("car", lit(5)), app("+", lit(1), lit(True)), app("vector-ref", lit(0), lit(0)), app("cdr", quote(NIL))]),
    "IndexRange": lambda r: r.choice([app("vector-ref", app("vector", lit(1), lit(2)), lit(2)), app("vector-set!", app("vector", lit(1)), lit(-1), lit(0)),
                                      app("vector-ref", quote(vlit([])), lit(0))]),
    "ImmutableVector": lambda r: app("vector-set!", quote(vlit([vint(1), vint(2)])), lit(0), lit(9)),
    "DivByZero": lambda r: r.choice([app("/", lit(1), lit(0)), app("/", lit(0)), app("floor-quotient", lit(3), lit(0)), app("/", lit(4), lit(2), lit(0))]),
}


def inject_fault(rng, forms, ticks=True):
    """replace one expression in a sequenced position (body / begin / clause body / top level) by a fault;
    positions whose evaluation order relative to other effects is unspecified are never chosen"""
    import copy
    from .shrink import paths, put, get
    forms = copy.deepcopy(forms)
    spots = [p for p, node in paths(forms) if isinstance(node, list) and p and p[-1] in ("body", "es") and len(node) >= 1]
    kind = rng.choice(sorted(FAULTS))
    fault = FAULTS[kind](rng)
    if ticks and rng.random() < 0.5:
        fault = begin(tick(900), fault)
    pre = [define("proc-one", lam(["z"], [var("z")]))]
    if not spots or rng.random() < 0.15:
        i = rng.randrange(len(forms) + 1)
        return pre + forms[:i] + [fault] + forms[i:], kind
    for _ in range(20):
        p = rng.choice(spots)
        node = get(forms, p)
        i = rng.randrange(len(node))
        new = node[:i] + [fault] + node[i:] if rng.random() < 0.5 else node[:i] + [fault] + node[i + 1:]
        out = put(forms, p, new)
        if S.wf(out):          # (an arrow clause has exactly one expression, ...)
            return pre + out, kind
    return pre + forms + [fault], kind


# ---- C03: histories over a pool of shared bindings and vectors ------------------------------
def store_history(rng, nsteps):
    forms = [
        define("make-counter", lam([], [lam([], [set_("n", app("+", var("n"), lit(1))), var("n")])], defs=[("n", lit(0))])),
        # (the closure is defined BEFORE the variable it uses: both are bindings of the frame of this call)
        define("make-counter2", lam([], [var("next!")], defs=[("next!", lam([], [set_("count", app("+", var("count"), lit(1))), var("count")])), ("count", lit(0))])),
        define("count", lit(100)),
        define("make-acc", lam(["total"], [lam(["k"], [set_("total", app("+", var("total"), var("k"))), var("total")])])),
        # the state is the REST parameter of the maker (its only formal): every call of the maker binds it afresh
        define("make-acc-rest", lam([], [lam(["k"], [set_("totals", app("cons", app("+", var("k"), app("car", var("totals"))), var("totals"))), app("car", var("totals"))])], rest="totals")),
        define("make-shared", lam([], [app("cons", lam([], [set_("n", app("+", var("n"), lit(1))), var("n")]), lam([], [var("n")]))], defs=[("n", lit(0))])),
        define("g", lit(0)),
        define("bump-g", lam([], [set_("g", app("+", var("g"), lit(1))), var("g")])),
        define("shadow-g", lam(["g"], [set_("g", app("+", var("g"), lit(100))), var("g")])),
        define("set-first!", lam(["vec", "val"], [app("vector-set!", var("vec"), lit(0), var("val")), var("vec")])),
        define("identity", lam(["x"], [var("x")])),
        # closures created in the ARGUMENTS of a loop's tail calls: each closes over the n of its own iteration
        define("make-loop-counters", lam(["n", "acc"], [if_(app("=", var("n"), lit(0)), var("acc"),
               app("make-loop-counters", app("-", var("n"), lit(1)),
                   app("cons", lam([], [set_("n", app("+", var("n"), lit(10))), var("n")]), var("acc"))))])),
    ]
    counters, accs, shared, vecs, lists, boxes, caps = [], [], [], [], [], [], []
    loops = {}
    lens = {}

    def vec_expr():
        """an expression denoting one of the existing vectors, through some alias path"""
        choices = [("var", v) for v in vecs]
        choices += [("list", l) for l in lists] + [("box", b) for b in boxes]
        kind, x = rng.choice(choices)
        if kind == "var":
            e, n = var(x), lens[x]
            if rng.random() < 0.2:
                e = app("identity", e)
            return e, n
        if kind == "list":
            j = rng.randrange(len(lens[x]))
            e = var(x)
            for _ in range(j):
                e = app("cdr", e)
            return app("car", e), lens[x][j]
        j = rng.randrange(len(lens[x]))
        return app("vector-ref", var(x), lit(j)), lens[x][j]

    for step in range(nsteps):
        ops = ["newcounter", "newacc", "newshared", "newvec", "global", "newloop", "nest", "rebind", "swapin"]
        if loops: ops += ["bumploop", "bumploop"]
        if counters or accs: ops += ["call", "call", "call2"]
        if shared: ops += ["shared", "shared"]
        if vecs: ops += ["alias", "vset", "vset", "vset", "container", "probe", "probe", "capture", "vref", "passset", "literalset"]
        if caps: ops += ["capset", "capset"]
        op = rng.choice(ops)
        if op == "newcounter":
            n = "c%d" % rng.randint(1, 5)
            forms.append(define(n, app(rng.choice(["make-counter", "make-counter2"]))))
            if n not in counters: counters.append(n)
            if n in accs: accs.remove(n)
        elif op == "newloop":
            n = "lc%d" % rng.randint(1, 2)
            k = rng.randint(1, 3)
            forms.append(define(n, app("make-loop-counters", lit(k), quote(NIL))))
            loops[n] = k
        elif op == "bumploop":
            n = rng.choice(sorted(loops))
            j = rng.randrange(loops[n])
            e = var(n)
            for _ in range(j):
                e = app("cdr", e)
            forms.append(app(app("car", e)))
        elif op == "swapin":
            # a slot that holds one object is given ANOTHER object that looks just like it (a vector with equal contents, a
            # counter made by the same maker): afterwards the slot holds the new object - changing it shows through the slot,
            # the old one is untouched
            t_ = rng.randint(1, 3)
            x, y, box = "sx%d" % t_, "sy%d" % t_, "sbox%d" % t_
            if rng.random() < 0.6:
                k = rng.randint(1, 3)
                fill = rng.randint(0, 3)
                mk = (lambda: app("make-vector", lit(k), lit(fill))) if rng.random() < 0.5 else (lambda: app("vector", *[lit(fill)] * k))
                j = rng.randrange(k)
                forms.append(define(x, mk())); forms.append(define(y, mk()))
                forms.append(define(box, app("vector", var(x), lit(0))))
                forms.append(app("vector-set!", var(box), lit(0), var(y)))
                forms.append(app("vector-set!", var(y), lit(j), lit(rng.randint(10, 99))))
                forms.append(app("list", app("vector-ref", app("vector-ref", var(box), lit(0)), lit(j)), app("vector-ref", var(x), lit(j)), app("vector-ref", var(y), lit(j))))
            else:
                forms.append(define(x, app("make-counter")))
                forms.append(app(x)); forms.append(app(x))
                forms.append(define(box, app("vector", var(x))))
                forms.append(app("vector-set!", var(box), lit(0), app("make-counter")))
                forms.append(app("list", app(app("vector-ref", var(box), lit(0))), app(x)))
        elif op == "nest":
            # a vector stored INTO a vector that looks just like it: the slot holds that very object, not a copy
            a, b = "n%d" % rng.randint(1, 3), "m%d" % rng.randint(1, 3)
            k = rng.randint(1, 3)
            fill = rng.randint(0, 3)
            mk = (lambda: app("make-vector", lit(k), lit(fill))) if rng.random() < 0.5 else (lambda: app("vector", *[lit(fill)] * k))
            forms.append(define(a, mk()))
            forms.append(define(b, mk()))
            forms.append(app("vector-set!", var(a), lit(rng.randrange(k)), var(b)))
            forms.append(app("vector-set!", var(b), lit(rng.randrange(k)), lit(rng.randint(10, 99))))
            forms.append(app("list", var(a), var(b)))
            if rng.random() < 0.5:
                forms.append(app("vector-set!", app("vector-ref", var(a), lit(0)) if False else var(b), lit(0), lit(rng.randint(10, 99))))
                forms.append(app("list", var(a), var(b)))
        elif op == "rebind":
            # set! to a NEW object that looks exactly like the old one: the variable denotes the new object from then on
            if rng.random() < 0.5:
                a, b = "ra%d" % rng.randint(1, 2), "rb%d" % rng.randint(1, 2)
                k = rng.randint(1, 3); fill = rng.randint(0, 3)
                forms.append(define(a, app("vector", *[lit(fill)] * k)))
                forms.append(define(b, var(a)))
                forms.append(set_(b, app("vector", *[lit(fill)] * k) if rng.random() < 0.5 else app("make-vector", lit(k), lit(fill))))
                forms.append(app("vector-set!", var(b), lit(rng.randrange(k)), lit(rng.randint(10, 99))))
                forms.append(app("list", var(a), var(b)))
            else:
                c = "rc%d" % rng.randint(1, 2)
                forms.append(define(c, app("make-counter")))
                for _ in range(rng.randint(1, 3)):
                    forms.append(app(c))
                forms.append(set_(c, app("make-counter")))
                forms.append(app(c))
        elif op == "newacc":
            n = "a%d" % rng.randint(1, 3)
            forms.append(define(n, app(rng.choice(["make-acc", "make-acc-rest"]), lit(rng.randint(0, 9)))))
            if n not in accs: accs.append(n)
        elif op == "newshared":
            n = "s%d" % rng.randint(1, 2)
            forms.append(define(n, app("make-shared")))
            if n not in shared: shared.append(n)
        elif op == "call":
            if counters and (not accs or rng.random() < 0.6):
                e = app(rng.choice(counters))
            else:
                e = app(rng.choice(accs), lit(rng.randint(1, 5)))
            wrap = rng.choice(["plain", "plus", "list", "if", "begin"])
            if wrap == "plus": e = app("+", e, lit(rng.randint(1, 9)))
            elif wrap == "list": e = app("list", e, lit(0))
            elif wrap == "if": e = if_(app("<", e, lit(3)), quote(vsym("small")), quote(vsym("big")))
            elif wrap == "begin": e = begin(e, e, e) if False else letstar([("t1", e)], [app("list", var("t1"), var("t1"))])
            forms.append(e)
        elif op == "call2":
            pool = counters + accs
            x, y = rng.choice(pool), rng.choice(pool)
            cx = app(x) if x in counters else app(x, lit(2))
            cy = app(y) if y in counters else app(y, lit(3))
            forms.append(letstar([("t1", cx), ("t2", cy), ("t3", cx)], [app("list", var("t1"), var("t2"), var("t3"))]))
        elif op == "shared":
            s = rng.choice(shared)
            forms.append(rng.choice([app(app("car", var(s))), app(app("cdr", var(s))),
                                     letstar([("t1", app(app("car", var(s)))), ("t2", app(app("cdr", var(s))))], [app("=", var("t1"), var("t2"))])]))
        elif op == "global":
            forms.append(rng.choice([app("bump-g"), app("shadow-g", lit(rng.randint(0, 5))), var("g"),
                                     letstar([("t1", app("shadow-g", lit(1))), ("t2", app("bump-g"))], [app("list", var("t1"), var("t2"), var("g"))])]))
        elif op == "newvec":
            n = "v%d" % rng.randint(1, 4)
            k = rng.randint(1, 3)
            how = rng.choice(["vector", "make-vector", "literal"])
            if how == "vector":
                forms.append(define(n, app("vector", *[lit(rng.randint(0, 9)) for _ in range(k)])))
            elif how == "make-vector":
                forms.append(define(n, app("make-vector", lit(k), lit(rng.randint(0, 9)))))
            else:
                forms.append(define(n, quote(vlit([vint(rng.randint(0, 9)) for _ in range(k)]))))
            if n not in vecs: vecs.append(n)
            lens[n] = k
        elif op == "alias":
            n = "v%d" % rng.randint(1, 4)
            e, k = vec_expr()
            forms.append(define(n, e))
            if n not in vecs: vecs.append(n)
            lens[n] = k
        elif op == "vset":
            e, k = vec_expr()
            i = rng.randrange(k) if rng.random() < 0.93 else k
            forms.append(app("vector-set!", e, lit(i), lit(rng.randint(10, 99))))
        elif op == "passset":
            e, k = vec_expr()
            forms.append(app("vector-ref", app("set-first!", e, lit(rng.randint(10, 99))), lit(0)))
        elif op == "literalset":
            forms.append(app("vector-set!", quote(vlit([vint(1), vint(2)])), lit(0), lit(5)))
        elif op == "vref":
            e, k = vec_expr()
            forms.append(app("vector-ref", e, lit(rng.randrange(k) if rng.random() < 0.9 else k)))
        elif op == "container":
            if rng.random() < 0.5:
                n = "l%d" % rng.randint(1, 2)
                items = [vec_expr() for _ in range(rng.randint(1, 3))]
                forms.append(define(n, app("list", *[e for e, _ in items])))
                if n not in lists: lists.append(n)
                if n in boxes: boxes.remove(n)
            else:
                n = "u%d" % rng.randint(1, 2)
                items = [vec_expr() for _ in range(rng.randint(1, 3))]
                if rng.random() < 0.35:
                    items = [items[0]] * rng.randint(1, 3)         # every slot of (make-vector k v) is the same object v
                    forms.append(define(n, app("make-vector", lit(len(items)), items[0][0])))
                else:
                    forms.append(define(n, app("vector", *[e for e, _ in items])))
                if n not in boxes: boxes.append(n)
                if n in lists: lists.remove(n)
            lens[n] = [k for _, k in items]
        elif op == "capture":
            n = "k%d" % rng.randint(1, 2)
            e, k = vec_expr()
            forms.append(define(n, app(lam(["held"], [lam(["val"], [app("vector-set!", var("held"), lit(0), var("val")), var("held")])]), e)))
            if n not in caps: caps.append(n)
        elif op == "capset":
            forms.append(app(rng.choice(caps), lit(rng.randint(10, 99))))
        elif op == "probe":
            forms.append(app("list", *[var(v) for v in vecs]))
    forms.append(app("list", *[var(v) for v in vecs]))
    forms.append(var("count"))          # the top-level count is nobody's state
    return forms


# ---- C11: the list library on random arguments and random compositions ------------------------
def rand_atom(rng):
    return rng.choice([vint(rng.randint(-9, 9)), vsym(rng.choice(["a", "b", "c"])), vbool(rng.random() < 0.5), vint(rng.randint(0, 3))])


def rand_list(rng, maxlen=12, depth=3, improper=0.15, ints=False):
    n = rng.choice([0, 1, 2, 3, 4, 5, rng.randint(0, maxlen)])
    xs = []
    for _ in range(n):
        if not ints and depth > 0 and rng.random() < 0.2:
            xs.append(rand_list(rng, 4, depth - 1, 0.1))
        else:
            xs.append(vint(rng.randint(-9, 9)) if ints else rand_atom(rng))
    tl = rand_atom(rng) if (xs and rng.random() < improper and not ints) else None
    return vlist(xs, tl)


def list_len(v):
    n = 0
    while v["t"] == "pair":
        n += 1; v = v["d"]
    return n


def list_expr(rng, depth, ints=False):
    """expression whose value is a list (proper unless a literal improper one is drawn at the leaves)"""
    if depth <= 0 or rng.random() < 0.3:
        return quote(rand_list(rng, ints=ints, improper=0.0))     # compositions stay inside the procedures' domains
    c = rng.choice(["append", "append3", "cdr", "map", "list-tail", "cons", "make-list", "list", "last-pair", "memv", "fold-rev", "apply-list", "map-cdr"])
    if c == "append":
        return app("append", list_expr(rng, depth - 1, ints), list_expr(rng, depth - 1, ints))
    if c == "append3":
        return app("append", list_expr(rng, depth - 1, ints), quote(rand_list(rng, 3, 1, 0, ints)), list_expr(rng, depth - 1, ints))
    if c == "cdr":
        return app("cdr", app("cons", lit(rng.randint(0, 9)), list_expr(rng, depth - 1, ints)))
    if c == "map":
        f = lam(["x"], [app("tick!", var("x"), var("x"))]) if rng.random() < 0.5 else lam(["x"], [app("list", var("x"))] if not ints else [app("+", var("x"), lit(1))])
        return app("map", f, list_expr(rng, depth - 1, ints))
    if c == "list-tail":
        l = rand_list(rng, 8, 1, 0, ints)
        return app("list-tail", quote(l), lit(rng.randint(0, list_len(l))))
    if c == "cons":
        return app("cons", lit(rng.randint(0, 9)), list_expr(rng, depth - 1, ints))
    if c == "make-list":
        return app("make-list", lit(rng.randint(0, 4)), lit(rng.randint(0, 9)))
    if c == "list":
        return app("list", *[lit(rng.randint(0, 9)) for _ in range(rng.randint(0, 4))])
    if c == "last-pair":
        return app("last-pair", app("cons", lit(1), list_expr(rng, depth - 1, ints)))
    if c == "memv":
        l = rand_list(rng, 8, 0, 0, True)
        return app("cdr", app("cons", lit(0), if_(app("memv", lit(rng.randint(-9, 9)), quote(l)), app("memv", lit(rng.randint(-9, 9)), quote(l)), quote(NIL)))) if False else \
            app("cdr", app("append", quote(vlist([vint(0)])), quote(l)))
    if c == "fold-rev":
        return app("fold-left", var("cons"), quote(NIL), list_expr(rng, depth - 1, ints))
    if c == "apply-list":
        return app("apply", var("list"), lit(rng.randint(0, 9)), list_expr(rng, depth - 1, ints))
    return app("map", var("cdr"), quote(vlist([vlist([vint(1), vint(2)]), vlist([vint(3)]), vlist([vint(4), vint(5), vint(6)])])))


def list_program(rng):
    forms = []
    for _ in range(rng.randint(4, 8)):
        c = rng.choice(["cxr", "index", "mem", "equal", "fold", "foreach", "pred", "compose", "compose", "apply", "error"])
        if c == "cxr":
            p = rng.choice(["car", "cdr", "caar", "cadr", "cdar", "cddr", "caaar", "caadr", "cadar", "caddr", "cdaar", "cdadr", "cddar", "cdddr"])
            forms.append(app(p, quote(rand_list(rng, 6, 3))))
        elif c == "index":
            l = rand_list(rng)
            k = rng.choice([0, 1, list_len(l) - 1, list_len(l), list_len(l) + 1, rng.randint(0, 12)])
            forms.append(app(rng.choice(["list-tail", "list-ref"]), quote(l), lit(max(k, 0))))
        elif c == "mem":
            l = rand_list(rng, 10, 1, 0.1)
            forms.append(app(rng.choice(["memq", "memv"]), lit(rand_atom(rng)), quote(l)))
        elif c == "equal":
            a = rand_list(rng, 5, 2)
            b = a if rng.random() < 0.4 else rand_list(rng, 5, 2)
            forms.append(app("equal?", quote(a), quote(b)))
        elif c == "fold":
            f = lam(["x", "acc"], [app("tick!", var("x"), app(rng.choice(["+", "-", "cons", "list"]), var("x"), var("acc")))])
            forms.append(app(rng.choice(["fold-left", "fold-right"]), f, lit(0), list_expr(rng, 2, ints=True)))
        elif c == "foreach":
            forms.append(app("for-each", lam(["x"], [app("tick!", var("x"))]), list_expr(rng, 2)))
        elif c == "pred":
            forms.append(app(rng.choice(["null?", "pair?", "list?", "last-pair"]), quote(rand_list(rng, 5, 2, 0.3)) if rng.random() < 0.8 else lit(5)))
        elif c == "compose":
            forms.append(list_expr(rng, rng.randint(2, 4), ints=rng.random() < 0.4))
        elif c == "apply":
            forms.append(app("apply", var(rng.choice(["+", "list", "append", "max"])), lit(rng.randint(1, 5)), quote(vlist([vint(rng.randint(0, 9)) for _ in range(rng.randint(0, 4))]))) if rng.random() < 0.7
                         else app("apply", var("append"), quote(vlist([rand_list(rng, 3, 0, 0, True) for _ in range(rng.randint(0, 4))]))))
        else:
            forms.append(rng.choice([app("car", quote(NIL)), app("cdr", lit(5)), app("list-ref", quote(vlist([vint(1)])), lit(3)), app("cadr", quote(vlist([vint(1)]))),
                                     app("list-tail", quote(vlist([vint(1), vint(2)])), lit(3)), app("last-pair", quote(NIL)), app("apply", var("car"), lit(5))]))
    return forms


# ---- C06 / C16: datum trees and layouts --------------------------------------------------------
IDENTS = ["a", "b", "foo", "+", "-", "...", "->x", "a.b", "set!", "x1", "<=?", "!$%&*/:<=>?^_~", "|hello world|", "||", "|(|", "list->vector", "-x", "+a", ".a", "...",
          # identifiers that begin like something else: a sign and the first letters of inf/nan, an exponent marker, a number prefix
          "-info", "+infix", "+nano", "-nan?", "+inf-loop", "-i", "+e1", "-e", "e1", "x.5", "+i", "nan.0", "inf"]
REALS = ["1.5", "-0.25", "1e3", "1.5e-3", "2.", "0.1", "-12.75", "3.4e38", "1e-40", "100.0", "6.02e23", "0.0", "-0.0", "1e10"]


def datum_tree(rng, depth):
    """tree of tokens: ("atom", text, want) | ("list", [trees], tail or None) | ("vec", [trees]) | ("quote", tree)"""
    if depth <= 0 or rng.random() < 0.35:
        k = rng.random()
        if k < 0.2:
            s = rng.choice(IDENTS)
            name = s[1:-1] if s.startswith("|") else s
            return ("atom", s, {"t": "sym", "cs": [ord(c) for c in name]})
        if k < 0.4:
            n = rng.choice([rng.randint(-99, 99), rng.randint(-2**31, 2**31 - 1), 0, 2147483647, -2147483648])
            txt = ("+" if n >= 0 and rng.random() < 0.2 else "") + str(n)
            return ("atom", txt, {"t": "int", "v": n})
        if k < 0.5:
            n, d = rng.randint(-99, 99), rng.randint(1, 99)
            return ("atom", "%d/%d" % (n, d), {"t": "rat", "n": n, "d": d})
        if k < 0.6:
            s = rng.choice(REALS)
            return ("atom", s, {"t": "realtext", "cs": [ord(c) for c in s]})
        if k < 0.7:
            b = rng.random() < 0.5
            return ("atom", "#t" if b else "#f", {"t": "bool", "b": b})
        if k < 0.8:
            c = rng.choice("aZ0(); #\\\"'|.")
            return ("atom", "#\\" + c, {"t": "char", "c": ord(c)})
        if k < 0.92:
            raw = "".join(rng.choice(["a", "b", " ", "(", ";", "|", "\\n", "\\t", "\\\"", "\\\\", "\\a", "\\|", "1", "'"]) for _ in range(rng.randint(0, 6)))
            val = raw.replace("\\n", "\n").replace("\\t", "\t").replace("\\\"", "\"").replace("\\a", "\x07").replace("\\|", "|").replace("\\\\", "\\")
            # (sequential replace is safe here: the pieces are drawn one by one, see below)
            pieces = []
            val = ""
            txt = ""
            for _ in range(rng.randint(0, 6)):
                t, v = rng.choice([("a", "a"), ("b", "b"), (" ", " "), ("(", "("), (";", ";"), ("|", "|"), ("\\n", "\n"), ("\\t", "\t"),
                                   ("\\\"", "\""), ("\\\\", "\\"), ("\\a", "\x07"), ("\\|", "|"), ("1", "1"), ("'", "'"), ("\\r", "\r"), ("\\b", "\x08")])
                txt += t; val += v
            return ("atom", '"' + txt + '"', {"t": "str", "cs": [ord(c) for c in val]})
        return ("list", [], None)
    k = rng.random()
    n = rng.randint(0, 4)
    kids = [datum_tree(rng, depth - 1) for _ in range(n)]
    if k < 0.6:
        tail = datum_tree(rng, 0) if (kids and rng.random() < 0.2) else None
        if tail is not None and tail[0] == "list":
            tail = None
        return ("list", kids, tail)
    if k < 0.8:
        return ("vec", kids)
    return ("quote", datum_tree(rng, depth - 1))


def want_of(t):
    if t[0] == "atom":
        return t[2]
    if t[0] == "list":
        r = want_of(t[2]) if t[2] is not None else {"t": "nil"}
        for x in reversed(t[1]):
            r = {"t": "pair", "a": want_of(x), "d": r}
        return r
    if t[0] == "vec":
        return {"t": "vec", "xs": [want_of(x) for x in t[1]]}
    q = {"t": "sym", "cs": [ord(c) for c in "quote"]}
    return {"t": "pair", "a": q, "d": {"t": "pair", "a": want_of(t[1]), "d": {"t": "nil"}}}


def tokens_of(t):
    if t[0] == "atom":
        return [t[1]]
    if t[0] == "list":
        out = ["("]
        for x in t[1]:
            out += tokens_of(x)
        if t[2] is not None:
            out += ["."] + tokens_of(t[2])
        return out + [")"]
    if t[0] == "vec":
        out = ["#("]
        for x in t[1]:
            out += tokens_of(x)
        return out + [")"]
    return ["'"] + tokens_of(t[1])


DELIMS = set(" \t\n\r()\";|")


def needs_separator(a, b):
    """may the two token spellings be written without anything between them?"""
    if a in ("'", "#(", "("):
        return False
    if a[-1] in '")|' and not (a.startswith("#\\") and len(a) == 3):
        return False if b[0] in DELIMS or True else True      # a closing delimiter character ends the token
    if b[0] in DELIMS:
        return False
    return True


def render_layout(rng, tree):
    toks = tokens_of(tree)
    out = []
    for i, tk in enumerate(toks):
        if i > 0:
            need = needs_separator(toks[i - 1], tk)
            r = rng.random()
            if not need and r < 0.5:
                sep = ""
            else:
                sep = rng.choice([" ", " ", "  ", "\t", "\n", "\r\n", " ; comment (\n", "\n\n  ", ";;\n", "\r", " ;x\r ", ";\r", "\n ; a\r\n ; b\n"])
            out.append(sep)
        out.append(tk)
    lead = rng.choice(["", "", " ", "\n", "; c\n"])
    trail = rng.choice(["", "", " ", "\n", " ; end"])
    return lead + "".join(out) + trail


# ---- C16: expressions that build values of the readable subset inside the interpreter -----------
def value_expr(rng, depth):
    if depth <= 0 or rng.random() < 0.3:
        k = rng.random()
        if k < 0.2:
            return str(rng.choice([0, 1, -1, 7, -12, 2147483647, -2147483647, -2147483648, 65536, rng.randint(-10**6, 10**6)]))
        if k < 0.35:
            return rng.choice(["1/2", "-3/4", "7/3", "(/ 1 -2)", "(/ 4 -6)", "(+ 1/4 1/4)", "(/ 2147483647 2)", "(/ -1 32767)", "(/ -2147483648 3)", "-2147483648/2147483647", "(/ 1 2147483647)", "(/ -2147483647 2147483646)", "(- -1073741824/3 1073741824/3)", "(/ -2147483648 2147483647)", "(* 2/3 3/2)", "(- 1/2 1/2)", "(/ 6 4)"])
        if k < 0.6:
            import struct
            c = rng.random()
            if c < 0.3:
                bits = rng.getrandbits(32)
                if (bits >> 23) & 0xFF == 0xFF:
                    bits &= 0x807FFFFF | (0x7E << 23)
                x = struct.unpack("<f", struct.pack("<I", bits))[0]
                return "%.9g" % x if ("." in "%.9g" % x or "e" in "%.9g" % x) else ("%.9g" % x) + ".0"
            return rng.choice(["0.5", "-0.25", "1.5", "0.1", "100.0", "1e10", "-1e10", "3.4028235e38", "1e-45", "1.17549435e-38", "1e-40", "16777216.0", "0.0", "-0.0",
                               "(/ 1.0 3)", "(* 1.1 1.1)", "(+ 0.1 0.2)", "1e21", "1e-7", "123456.789", "9.999999e-5", "0.001", "1e7", "1e16", "(/ 7 2.0)"])
        if k < 0.7:
            return rng.choice(["#t", "#f"])
        if k < 0.8:
            return "#\\" + rng.choice("aZ09(;#.' )")
        if k < 0.95:
            return "'" + rng.choice(["a", "foo", "+", "-", "...", "->x", "a.b", "x1", "list->vector", "<=?", "quote", "quote", "quasiquote", "unquote", "unquote-splicing"])
        return "'()"
    k = rng.random()
    n = rng.randint(0, 6)
    kids = [value_expr(rng, depth - 1) for _ in range(n)]
    if k < 0.5:
        return "(list " + " ".join(kids) + ")" if kids else "'()"
    if k < 0.7 and kids:
        return "(cons " + kids[0] + " " + (value_expr(rng, 0) if len(kids) == 1 else "(cons " + kids[1] + " " + value_expr(rng, 0) + ")") + ")"
    if k < 0.85:
        return "(vector " + " ".join(kids) + ")"
    return "(append (list " + " ".join(kids) + ") " + value_expr(rng, 0) + ")" if kids else "(vector)"
