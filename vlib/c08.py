# C08 Run-time errors are detected, classified, and leave the interpreter usable
import random
from .common import *
from . import scheme as S, machine as M, gen as G


def sigs_fn(forms, tag):
    return [{"kind": "vector", "value": " ".join(S.render(f) for f in forms)}] + \
           [{"kind": "input_class", "value": c} for c in G.classes_of_program(forms)]


def run(ctx):
    tier = ctx.tier
    build_harness()
    r = run_tlc("MCMachine.tla", "MCMachine_fault.cfg", ctx.dir, workers=12, timeout=3000, coverage=(tier == "thorough"))
    require_clean(r, "MCMachine fault")
    ctx.add_tlc(r, "MCMachine_fault")
    vecs = sorted(r.vecs, key=lambda v: canon(v["forms"]))
    if not vecs:
        raise ToolError("no vectors")
    M.replay_vectors(ctx, vecs, sigs_fn)
    for v in vecs:
        ctx.nontrivial_key(v["forms"])
    for v in vecs[:: max(1, len(vecs) // 3)][:3]:
        ctx.sample({"program": " ".join(S.render(f) for f in v["forms"]), "expected": [x["r"] for x in v["results"]]})
    ctx.stage("replay", programs=len(vecs), exhaustive=True)
    rng = random.Random(ctx.seed)
    n = 300 if tier == "quick" else 5000
    progs, kinds = [], {}
    for i in range(n):
        base = G.core_program(rng) if rng.random() < 0.5 else G.derived_program(rng)
        p, kind = G.inject_fault(rng, base)
        progs.append(p + [S.app("list", S.lit(1), S.lit(2))])
        kinds[kind] = kinds.get(kind, 0) + 1
    mism, results = M.validate_programs(ctx, progs, "validate")
    M.report_mismatches(ctx, progs, mism, sigs_fn)
    nerr = sum(1 for res in results for o in res["results"] if o.get("k") == "error")
    for p in progs:
        ctx.nontrivial_key(p)
    ctx.sample({"validated_program": " ".join(S.render(f) for f in progs[0])})
    ctx.stage("validate", programs=n, injected=kinds, forms_that_raised_an_error=nerr, mismatches=len(mism))
    ctx.assumptions += ["error kinds are compared as classes (message text and the Type named in a type error are not)",
                        "faults are injected only in sequenced positions, so the effects completed before the fault are determined by R7RS"]
    return ctx.finish(rule="replay: Programs!FaultFamily (10 faulting operations x 11 calling contexts x position) compared form by form incl. the probes after the fault; "
                           "validate: seeded valid random programs with one injected fault checked by MachineTrace.tla; non-trivial = distinct program")


def replay(ctx, case):
    return M.generic_replay(ctx, case, sigs_fn)
