# C08 Run-time errors are detected, classified, and leave the interpreter usable
import random
from .common import *
from . import scheme as S, machine as M, gen as G


def sigs_fn(forms, tag):
    return [{"kind": "vector", "value": " ".join(S.render(f) for f in forms)}] + \
           [{"kind": "input_class", "value": c} for c in G.classes_of_program(forms)]


def run(ctx):
    tier = ctx.tier
    build_harness()
    r = run_tlc("MCMachine.tla", "MCMachine_fault.cfg", ctx.dir, workers=12, timeout=3000, coverage=(tier == "thorough"))
    require_clean(r, "MCMachine fault")
    ctx.add_tlc(r, "MCMachine_fault")
    vecs = sorted(r.vecs, key=lambda v: canon(v["forms"]))
    if not vecs:
        raise ToolError("no vectors")
    M.replay_vectors(ctx, vecs, sigs_fn)
    for v in vecs:
        ctx.nontrivial_key(v["forms"])
    for v in vecs[:: max(1, len(vecs) // 3)][:3]:
        ctx.sample({"program": " ".join(S.render(f) for f in v["forms"]), "expected": [x["r"] for x in v["results"]]})
    ctx.stage("replay", programs=len(vecs), exhaustive=True)
    rng = random.Random(ctx.seed)
    n = 300 if tier == "quick" else 5000
    progs, kinds = [], {}
    for i in range(n):
        base = G.core_program(rng) if rng.random() < 0.5 else G.derived_program(rng)
        p, kind = G.inject_fault(rng, base)
        progs.append(p + [S.app("list", S.lit(1), S.lit(2))])
        kinds[kind] = kinds.get(kind, 0) + 1
    mism, results = M.validate_programs(ctx, progs, "validate")
    M.report_mismatches(ctx, progs, mism, sigs_fn)
    nerr = sum(1 for res in results for o in res["results"] if o.get("k") == "error")
    for p in progs:
        ctx.nontrivial_key(p)
    ctx.sample({"validated_program": " ".join(S.render(f) for f in progs[0])})
    ctx.stage("validate", programs=n, injected=kinds, forms_that_raised_an_error=nerr, mismatches=len(mism))
    # ---- error storms: hundreds of faults of every kind on ONE interpreter, each raised several procedure calls deep and
    # in every calling context, with probes in between: "after the error the interpreter ... evaluates later forms normally"
    # must hold after the 500th error as after the first
    storms = []
    for _ in range(4 if tier == "quick" else 16):
        forms = [S.define("s", S.lit(0)), S.define("proc-one", S.lam(["z"], [S.var("z")])),
                 S.define("deep", S.lam(["n", "th"], [S.if_(S.app("=", S.var("n"), S.lit(0)), S.app("th"),
                                                           S.app("+", S.lit(0), S.app("deep", S.app("-", S.var("n"), S.lit(1)), S.var("th"))))])),
                 S.define("deep-tail", S.lam(["n", "th"], [S.if_(S.app("=", S.var("n"), S.lit(0)), S.app("th"),
                                                                S.app("deep-tail", S.app("-", S.var("n"), S.lit(1)), S.var("th")))]))]
        for k in range(150 if tier == "quick" else 400):
            fk = rng.choice(sorted(G.FAULTS))
            fault = G.FAULTS[fk](rng)
            thunk = S.lam([], [S.set_("s", S.app("+", S.var("s"), S.lit(1))), fault])
            ctxk = rng.random()
            if ctxk < 0.4:
                forms.append(S.app("deep", S.lit(rng.randint(6, 14)), thunk))
            elif ctxk < 0.6:
                forms.append(S.app("deep-tail", S.lit(rng.randint(6, 14)), thunk))
            elif ctxk < 0.8:
                forms.append(S.app(rng.choice(["map", "for-each"]), S.lam(["q"], [S.app("deep", S.lit(3), thunk)]), S.quote(S.vlist([S.vint(1), S.vint(2)]))))
            else:
                forms.append(S.app("apply", S.var("deep"), S.app("list", S.lit(4), thunk)))
            if k % 4 == 0:
                forms.append(S.app("list", S.var("s"), S.app("proc-one", S.lit(k)), S.app("deep", S.lit(5), S.lam([], [S.lit(k)]))))
        storms.append(forms)
    mism2, results2 = M.validate_programs(ctx, storms, "storm", shards=min(8, len(storms)), maxsteps=20000)
    M.report_mismatches(ctx, storms, mism2, sigs_fn)
    ctx.stage("storm", programs=len(storms), forms=sum(len(p) for p in storms), mismatches=len(mism2))
    # ---- division by an exact zero where inexact operands are around: the machine has no reals, so these calls are judged by
    # the numeric specification (NumbersX!ArithVerdict: an exact dividend or partial quotient divided by exact zero is an error)
    from . import numbers as N
    from . import scheme as S_
    R25 = {"t": "real", "s": 0, "e": 128, "m": 2097152}      # 2.5
    I = lambda n: {"t": "int", "v": n}
    zc = []
    for a in (1, 7, -3, 0):
        for texts_, args in ((["%d" % a, "0", "2.5"], [I(a), I(0), R25]), (["%d" % a, "0"], [I(a), I(0)]), (["%d" % a, "2", "0", "2.5"], [I(a), I(2), I(0), R25]),
                             (["%d" % a, "0", "2.5", "2.5"], [I(a), I(0), R25, R25])):
            for shape in ("(/ %s)", "(apply / (list %s))", "((lambda (f) (f %s)) /)", "(car (map (lambda (q) (/ %s)) '(1)))", "(let ((r (/ %s))) r)"):
                zc.append({"op": "/", "srcs": texts_, "args": args, "text": shape % " ".join(texts_)})
    badz, _ = N.validate_cases(ctx, zc, "zero-division", shards=2)
    N.report(ctx, "C08", badz, "division by exact zero in calling contexts")
    ctx.stage("exact-zero-division", cases=len(zc), rejected=len(badz))
    ctx.assumptions += ["error kinds are compared as classes (message text and the Type named in a type error are not)",
                        "faults are injected only in sequenced positions, so the effects completed before the fault are determined by R7RS"]
    return ctx.finish(rule="replay: Programs!FaultFamily (12 faulting operations x 13 calling contexts x position) compared form by form incl. the probes after the fault; "
                           "validate: seeded valid random programs with one injected fault checked by MachineTrace.tla; non-trivial = distinct program")


def replay(ctx, case):
    return M.generic_replay(ctx, case, sigs_fn)
