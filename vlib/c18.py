# C18 A REPL session equals evaluating its forms in sequence
import random, itertools, os, json, re, concurrent.futures
from .common import *
from . import scheme as S, reader as R, gen as G

ALPHABET = "()\";\n#\\|a "


def cps(s):
    return [ord(c) for c in s]


def run_trace(ctx, events, tag, shards=8):
    files = []
    for sh in range(shards):
        part = events[sh::shards]
        path = os.path.join(ctx.dir, "%s.trace%d.ndjson" % (tag, sh))
        with open(path, "w") as f:
            for _, e in part:
                f.write(json.dumps(e, separators=(",", ":")) + "\n")
        files.append((path, part))

    def one(sh):
        return run_tlc("ReplTrace.tla", "ReplTrace.cfg", ctx.dir, tag="%s.rp%d" % (tag, sh), workers=1, timeout=3000,
                       xss="512m", xmx="3g", env={"TRACE": files[sh][0]}, want_tags=("MISMATCH",))
    bad = []
    with concurrent.futures.ThreadPoolExecutor(max_workers=shards) as ex:
        for sh, tr in enumerate(ex.map(one, range(shards))):
            if not files[sh][1]:
                continue
            done = [m for m in tr.msgs if m[0] == "DONE"]
            if tr.error or tr.violation or not done or done[0][1]["events"] != len(files[sh][1]):
                tail = "".join(open(tr.path, errors="replace").readlines()[-25:])
                raise ToolError("ReplTrace shard %d did not consume its trace: %s %s\n%s" % (sh, tr.error, tr.violation, tail))
            ctx.add_tlc(tr, "ReplTrace:%s:%d" % (tag, sh))
            for m in tr.vecs:
                bad.append((files[sh][1][m["event"] - 1][0], m["why"]))
    return bad


def tokens_with_depth(text):
    """token spellings of a rendered form (renderer output: no comments, strings without newlines)"""
    return re.findall(r'"(?:[^"\\]|\\.)*"|\|[^|]*\||#\\.|#\(|[()\']|[^\s()\'"|]+', text)


def split_lines(rng, text):
    toks = tokens_with_depth(text)
    lines, cur, depth = [], "", 0
    for i, t in enumerate(toks):
        cur = (cur + " " + t) if cur and not cur.endswith(("(", "'")) and t != ")" else cur + t
        if t in ("(", "#("):
            depth += 1
        elif t == ")":
            depth -= 1
        if depth > 0 and i < len(toks) - 1 and rng.random() < 0.25:
            if rng.random() < 0.2:
                cur += " ; ) (\" comment"
            lines.append(cur); cur = ""
            if rng.random() < 0.15:
                lines.append("")          # an empty line is ignored
    if cur:
        lines.append(cur)
    # a string literal may contain a line break: the physical lines are what is typed
    return [part for l in lines for part in l.split("\n")]


def strip_ansi(s):
    return re.sub(r"\x1b\[[0-9;]*m", "", s)


def learn_chrome(binp, cwd):
    """what the REPL writes that is not the transcript of the forms: the lines of a session without any input (banner first,
    farewell last), and the decoration around an error message (learned from one failing form whose message is known from
    the library interface).  The statement fixes neither, so they are observed, not assumed."""
    def lines(data):
        p = subprocess.run([binp], input=data, stdout=subprocess.PIPE, stderr=subprocess.PIPE, timeout=60, cwd=cwd)
        o = strip_ansi(p.stdout.decode(errors="replace")).split("\n")
        e = strip_ansi(p.stderr.decode(errors="replace")).split("\n")
        return (o[:-1] if o and o[-1] == "" else o), (e[:-1] if e and e[-1] == "" else e)
    idle, _ = lines(b"")
    _, err = lines(b"(car (quote chrome-probe))\n")
    return {"idle": idle, "errline": err[0] if err else ""}


def strip_chrome(out, chrome):
    idle = chrome["idle"]
    k = 0
    while k < len(idle) and k < len(out) and out[k] == idle[k]:
        k += 1
    out, rest = out[k:], idle[k:]
    j = 0
    while j < len(rest) and j < len(out) and out[len(out) - 1 - j] == rest[len(rest) - 1 - j]:
        j += 1
    return out[:len(out) - j] if j else out


def undecorate(line, chrome):
    pre, suf = chrome.get("pre", ""), chrome.get("suf", "")
    if line.startswith(pre) and line.endswith(suf) and len(line) >= len(pre) + len(suf):
        return line[len(pre):len(line) - len(suf)] if suf else line[len(pre):]
    return line


def run(ctx):
    tier = ctx.tier
    build_harness()
    binp = build_binary()
    chrome = learn_chrome(binp, ctx.dir)
    probe = run_jobs([{"id": 0, "kind": "session", "steps": [{"op": "new", "i": 0, "natives": False}, {"op": "eval", "i": 0, "text": "(car (quote chrome-probe))", "print": True}]}],
                     ctx.dir, tag="chrome")[0]["results"][1]
    msg = probe.get("msg", "")
    at = chrome["errline"].find(msg) if msg else -1
    if at < 0:
        raise ToolError("the REPL's error line %r does not contain the message %r of the library interface" % (chrome["errline"], msg))
    chrome["pre"], chrome["suf"] = chrome["errline"][:at], chrome["errline"][at + len(msg):]
    r = run_tlc("MCRepl.tla", "MCRepl.cfg", ctx.dir, workers=12, timeout=1200, xss="256m")
    require_clean(r, "MCRepl")
    ctx.add_tlc(r, "MCRepl (a form is submitted exactly with its last line, for every split inside lists)")
    # ---- the completeness test alone: every string up to length 5 (6 thorough) over a 10-character alphabet, against hook H1
    maxlen = 5 if tier == "quick" else 6
    texts = ["".join(p) for n in range(0, maxlen + 1) for p in itertools.product(ALPHABET, repeat=n)]
    jobs = [{"id": i, "kind": "bracket", "text": t} for i, t in enumerate(texts)]
    res = run_jobs(jobs, ctx.dir, tag="closed", timeout=3000)
    events = []
    for i, (t, o) in enumerate(zip(texts, res)):
        if "closed" in o:
            events.append((i, {"ev": "closed", "text": cps(t), "closed": o["closed"]}))
    bad = run_trace(ctx, events, "closed", shards=12)
    for i, why in bad:
        ctx.violation([{"kind": "input", "value": texts[i]}], "completeness test on %r: the REPL says %s, the specification (Reader depth) the opposite" %
                      (texts[i], res[i].get("closed")), {"stage": "closed", "text": texts[i]})
    ctx.count(evaluations=len(texts), validated=len(events))
    for t in texts:
        ctx.nontrivial_key(t)
    ctx.stage("completeness-test", alphabet=ALPHABET, maxlen=maxlen, texts=len(texts), rejected=len(bad), exhaustive=True)
    # ---- sessions through the binary over a pipe, each under several random line splittings
    rng = random.Random(ctx.seed)
    n = 120 if tier == "quick" else 1500
    sessions = []
    for _ in range(n):
        g = rng.random()
        if g < 0.4:
            forms = G.core_program(rng, ticks=False)
        elif g < 0.8:
            forms = G.derived_program(rng, ticks=False)
        else:
            forms, _ = G.inject_fault(rng, G.core_program(rng, ticks=False), ticks=False)
        forms = forms + [S.app("list", S.quote(S.vsym("done")), S.lit(1), S.quote(S.vlist([S.vstr("(;|"), S.vchar("("), S.vsym("|(|")])) if False else S.lit(2))]
        texts_ = [S.render(f) for f in forms]
        if rng.random() < 0.5:
            # a string literal that spans a line break inside a list (the newline is part of the string), parentheses inside it
            k = rng.randrange(len(texts_) + 1)
            texts_ = texts_[:k] + ['(define str%d "a(b %s\n c)" )' % (rng.randint(1, 3), rng.choice(["", ")", "((", ";x"])), "(list 1 str%d)" % rng.randint(1, 3)] + texts_[k:]
        if rng.random() < 0.4:
            # a |quoted identifier| that spans a line break inside a list that is still open (the newline is part of the name)
            k = rng.randrange(len(texts_) + 1)
            texts_ = texts_[:k] + ["(define sym%d '|two%s\nlines%s|)" % (rng.randint(1, 3), rng.choice(["", " (", ")", '"']), rng.choice(["", ")", " ;"])),
                                   "(list 2 (eqv? sym%d 'two) 3)" % rng.randint(1, 3)] + texts_[k:]
        if rng.random() < 0.35:
            # values whose echo is empty or ends in white space: the echo is the value's text, all of it
            k = rng.randrange(len(texts_) + 1)
            texts_ = texts_[:k] + [rng.choice(['"tab\t"', '"ends in blanks  "', '" "', '""', "'||", '(list "a " "")', '(vector " ")', "(car (list #\\  1))"])] + texts_[k:]
        if rng.random() < 0.4:
            # a form that is rejected when it is parsed (it lexes, so the completeness test is not concerned)
            k = rng.randrange(len(texts_) + 1)
            # (a closing parenthesis too many closes nothing: the submission fails, and the next form starts from depth zero)
            texts_ = texts_[:k] + [rng.choice(["(if)", "(lambda)", "(let ((y)) y)", "(define)", "(quote)", "(if 1 2 3 4)", ")", "(+ 1 2))", "(list 1 (+ 1 1)) )", "))"])] + texts_[k:]
        # the trace specification re-lexes the pending text at every line: keep sessions small
        texts_ = [t for t in texts_ if len(t) <= 160][:6]
        if "tick!" in " ".join(texts_) or not texts_:
            continue
        sessions.append(texts_)
    # the library interface: the same forms one after another on one interpreter
    jobs = []
    for i, texts_ in enumerate(sessions):
        steps = [{"op": "new", "i": 0, "natives": False}] + [{"op": "eval", "i": 0, "text": t, "print": True} for t in texts_]
        jobs.append({"id": i, "kind": "session", "steps": steps})
    inproc = run_jobs(jobs, ctx.dir, tag="inproc", timeout=3000, job_timeout_ms=10000)
    events = []
    for i, (texts_, ip) in enumerate(zip(sessions, inproc)):
        if ip.get("skipped") or ip.get("crashed") or ip.get("timedout"):
            continue
        rs = ip["results"][1:]
        if len(rs) < len(texts_) or any(o.get("k") == "panic" for o in rs):
            continue                       # a panic through the library interface is C07's finding, not a transcript to compare with
        for variant in range(3):
            # submissions: a form, or several forms the first line of each of which continues the last line of the one
            # before ("each submission prints the value of its last form ... or its error message"); only the LAST form
            # of a submission may be a failing one (what a submission does after a failure in its middle is not stated)
            groups = []
            for k, t in enumerate(texts_):
                if groups and variant > 0 and rng.random() < 0.35 and rs[k - 1]["k"] != "error":
                    groups[-1].append(k)
                else:
                    groups.append([k])
            expected, lines, subs = [], [], []
            for g in groups:
                o = rs[g[-1]]
                if o["k"] == "value" and o["v"].get("t") != "void":
                    for line in "".join(chr(c) for c in o["printed"]).split("\n"):      # a printed string may span lines
                        expected.append({"ch": "out", "cs": cps(line)})
                elif o["k"] == "error":
                    expected.append({"ch": "err", "cs": cps(o["msg"])})
                gl = []
                for k in g:
                    ls = split_lines(rng, texts_[k])
                    if gl:
                        gl[-1] = gl[-1] + " " + ls[0]; gl += ls[1:]
                    else:
                        gl = ls
                lines += gl
                subs.append(" ".join(texts_[k] for k in g))
            p = subprocess.run([binp], input=("\n".join(lines) + "\n").encode(), stdout=subprocess.PIPE, stderr=subprocess.PIPE, timeout=60, cwd=ctx.dir)
            out = strip_ansi(p.stdout.decode(errors="replace")).split("\n")
            if out and out[-1] == "":
                out = out[:-1]
            out = strip_chrome(out, chrome)
            err = strip_ansi(p.stderr.decode(errors="replace")).split("\n")
            if err and err[-1] == "":
                err = err[:-1]
            err = [undecorate(x, chrome) for x in err]
            events.append(((i, variant, lines), {"ev": "session", "lines": [cps(x) for x in lines], "forms": [cps(t) for t in subs],
                                                  "expected": expected, "stdout": [cps(x) for x in out], "stderr": [cps(x) for x in err]}))
    bad = run_trace(ctx, events, "sessions")
    for (i, variant, lines), why in bad:
        if why.startswith("generator"):
            raise ToolError("session generator produced a session outside the claim: %s\n%s" % (why, "\n".join(lines)))
        ctx.violation([{"kind": "input", "value": "\n".join(lines)}], "REPL session (forms %s; lines %r): %s" % (" ".join(sessions[i])[:300], lines[:12], why),
                      {"stage": "session", "lines": lines, "forms": sessions[i]})
    ctx.count(evaluations=len(events), validated=len(events))
    for (i, variant, lines), _ in events:
        ctx.nontrivial_key("\n".join(lines))
    ctx.stage("sessions", programs=len(sessions), transcripts=len(events), rejected=len(bad))
    if events:
        ctx.sample({"session_lines": events[0][0][2][:10]})
    ctx.assumptions += ["the banner and the farewell line (learned from a session without input) and the decoration around error messages (learned from one probe) are removed; standard output and standard error are compared separately (their interleaving is not observable through pipes)",
                        "forms are split only inside lists; displayed output is not used in sessions (values only)",
                        "where the pending text does not lex at a line break (unterminated string or |identifier|) nothing is demanded"]
    return ctx.finish(rule="completeness test: every string up to length 5 over the 10-character alphabet ( ) \" ; newline # \\ | a space against hook H1, judged through Reader depth; "
                           "sessions: random form sequences (incl. failing forms) fed to the binary over a pipe under 3 random line splittings, compared in TLC with the transcript of the same forms through the library interface, "
                           "the submission boundaries being those of Repl.tla; non-trivial = distinct text / session")


def replay(ctx, case):
    if case.get("stage") == "closed":
        t = case["text"]
        res = run_jobs([{"id": 0, "kind": "bracket", "text": t}], ctx.dir, tag="replay1")
        log("text:", repr(t), "REPL completeness test:", res[0].get("closed"))
        bad = run_trace(ctx, [(0, {"ev": "closed", "text": cps(t), "closed": res[0]["closed"]})], "replay1", shards=1)
        if bad:
            ctx.violation([{"kind": "input", "value": t}], "replayed: still differs", case)
        return 1 if ctx.nviol else 0
    binp = build_binary()
    p = subprocess.run([binp], input=("\n".join(case["lines"]) + "\n").encode(), stdout=subprocess.PIPE, stderr=subprocess.PIPE, timeout=60)
    log("lines:", case["lines"]); log("stdout:", p.stdout.decode(errors="replace")); log("stderr:", p.stderr.decode(errors="replace"))
    return 1
