# C14 Library loading terminates, and its outcome depends only on the library graph
import os, random, json, shutil
from .common import *

KIND_OF = {"none": "Ok"}
ERRMAP = {"Cyclic": "Cyclic", "NotFound": "NotFound", "Syntax": "Syntax", "Io": "Io", "WrongType": "Fault"}


def lname(n):
    """library n is called (lN) when n is odd and has the two-part name (d lN), kept in d/lN.sld, when n is even"""
    return "(l%d)" % n if n % 2 else "(d l%d)" % n


def lparts(n):
    return ["l%d" % n] if n % 2 else ["d", "l%d" % n]


def edge(n, i):
    """the import set through which library n imports library i: every form of import set is an edge of the graph"""
    k = (3 * n + i) % 5
    L = lname(i)
    return [L, "(only %s v%d)" % (L, i), "(prefix %s p%d-)" % (L, n), "(rename %s (v%d w%d))" % (L, i, i), "(except %s v%d)" % (L, i)][k]


def lib_source(n, imports, kind):
    imps = "".join(" " + edge(n, i) for i in imports)
    body = "(define v%d (car %d))" % (n, n) if kind == "fault" else "(define v%d %d)" % (n, n)
    name = "zz%d" % n if kind == "wrongname" else lname(n)[1:-1]
    src = "(define-library (%s)\n  (import (scheme base)%s)\n  (export v%d)\n  (begin %s))\n" % (name, imps, n, body)
    if kind == "malformed":
        src = src.rstrip()[:-1] + "\n"          # drop the final parenthesis
    return src


def observed_out(o):
    k = o.get("k")
    if k == "none":
        return "Ok"
    if k == "error":
        return ERRMAP.get(o["kind"], "Other:" + o["kind"])
    if k == "panic":
        return "Panic@" + o.get("site", "?")
    return k or "?"


def make_files(base, cfgid, imports, kind, bundled=False):
    """bundled: the file of each library also holds, before the library's own definition, healthy definitions of all the
    OTHER library names.  Those are not the libraries of the graph: (import (lj)) is decided by lj's own file (or its
    absence), whatever files were read before."""
    d = os.path.join(base, "cfg%s" % cfgid, "prog")
    os.makedirs(d, exist_ok=True)
    for n, (imp, k) in enumerate(zip(imports, kind), start=1):
        p = os.path.join(d, *lparts(n)) + ".sld"
        os.makedirs(os.path.dirname(p), exist_ok=True)
        if k == "missing":
            continue
        if k == "notutf8":
            with open(p, "wb") as f:
                f.write(b"(define-library " + lname(n).encode() + b" (export v) (begin (define v \"\xff\xfe\")))\n")
        else:
            with open(p, "w") as f:
                if bundled:
                    for j in range(1, len(kind) + 1):
                        if j != n:
                            f.write("(define-library %s\n  (import (scheme base))\n  (export v%d)\n  (begin (define v%d 'decoy)))\n" % (lname(j), j, j))
                f.write(lib_source(n, imp, k))
    return d


def session(jid, imports, kind, attempts, mode, filedir=None):
    steps = [{"op": "new", "i": 0, "stdlib": True, "natives": False}]
    if mode == "registered":
        for n, (imp, k) in enumerate(zip(imports, kind), start=1):
            if k in ("ok", "fault"):
                steps.append({"op": "reglib", "i": 0, "name": lparts(n), "text": lib_source(n, imp, k)})
    else:
        steps.append({"op": "progdir", "i": 0, "path": filedir})
    first = len(steps)
    for a in attempts:
        steps.append({"op": "eval", "i": 0, "text": "(import %s)" % lname(a)})
        steps.append({"op": "loader", "i": 0})
    return {"id": jid, "kind": "session", "steps": steps}, first


def observe(res, first, nattempts):
    """-> list of (out, marks) per attempt"""
    out = []
    rs = res["results"]
    if res.get("skipped"):
        return None
    crashed = ("Abort(process died: %s)" % res.get("status")) if res.get("crashed") else None
    for k in range(nattempts):
        i = first + 2 * k
        if i >= len(rs):
            out.append((crashed or "NotRun(after a panic)", []))
            continue
        o = observed_out(rs[i])
        marks = []
        if i + 1 < len(rs) and rs[i + 1].get("k") == "loader":
            marks = sorted(int(re.search(r"l(\d+)\)$", m).group(1)) for m in rs[i + 1]["st"]["inProgress"] if re.search(r"l(\d+)\)$", m))
        out.append((o, marks))
    return out


def describe(imports, kind):
    return "; ".join("l%d[%s]->%s" % (n, k, ",".join("l%d" % i for i in imp)) for n, (imp, k) in enumerate(zip(imports, kind), start=1))


def sig_for(imports, kind, attempts, mode):
    return {"kind": "vector", "value": "%s | %s | attempts %s" % (mode, describe(imports, kind), attempts)}


def classes_for(imports, kind, attempts, k, obs):
    """input-side classes used by known findings: which node kinds occur, whether an earlier attempt failed"""
    return []


def compare_vec(ctx, v, mode, res, first):
    attempts = [h["lib"] for h in v["history"]]
    obs = observe(res, first, len(attempts))
    if obs is None:
        ctx.cov["skipped_after_crashes"] = ctx.cov.get("skipped_after_crashes", 0) + 1
        return False
    for k, (h, (o, marks)) in enumerate(zip(v["history"], obs)):
        cands = v["cands"][h["lib"] - 1]
        ctx.count(evaluations=1)
        if o not in cands or marks != sorted(h["marks"]):
            sigs = [sig_for(v["imports"], v["kind"], attempts[:k + 1], mode)]
            if o.startswith("Panic@"):
                sigs.append({"kind": "panic_site", "value": o[6:]})
            return ctx.violation(sigs,
                                 "%s libraries {%s}, attempts %s: attempt %d (import (l%d)) gave %s with marks %s; the specification allows %s with no marks left"
                                 % (mode, describe(v["imports"], v["kind"]), attempts, k + 1, h["lib"], o, marks, cands),
                                 {"stage": "replay", "mode": mode, "vec": v})
    return False


def run_vectors(ctx, vecs, mode, tag):
    filebase = os.path.join(ctx.dir, "files-" + tag)
    if mode in ("files", "bundled"):
        shutil.rmtree(filebase, ignore_errors=True)
    jobs, firsts, dirs = [], [], {}
    for i, v in enumerate(vecs):
        fd = None
        if mode in ("files", "bundled"):
            key = canon([v["imports"], v["kind"]])
            if key not in dirs:
                dirs[key] = make_files(filebase, len(dirs), v["imports"], v["kind"], bundled=(mode == "bundled"))
            fd = dirs[key]
        j, first = session(i, v["imports"], v["kind"], [h["lib"] for h in v["history"]], mode, fd)
        jobs.append(j); firsts.append(first)
    results = run_jobs(jobs, ctx.dir, tag=tag, timeout=2400)
    for v, res, first in zip(vecs, results, firsts):
        compare_vec(ctx, v, mode, res, first)
        ctx.count(validated=1)
    if mode in ("files", "bundled"):
        shutil.rmtree(filebase, ignore_errors=True)


def gen_config(rng, n, total=6):
    kinds_pool = ["ok"] * 6 + ["fault", "missing", "wrongname", "malformed", "notutf8"]
    kind = [rng.choice(kinds_pool) if i < n else "ok" for i in range(total)]
    imports = []
    for i in range(total):
        if i >= n or kind[i] not in ("ok", "fault"):
            imports.append([])
            continue
        others = [j + 1 for j in range(n)]
        k = rng.choice([0, 1, 1, 2, 2, 3])
        imports.append(rng.sample(others, min(k, len(others))))
    return imports, kind


def run(ctx):
    tier = ctx.tier
    build_harness()
    # ---- the model as implemented (marks kept on failure) must be rejected by TLC
    r = run_tlc("MCLoader.tla", "MCLoader_asimpl.cfg", ctx.dir, workers=4, timeout=900)
    if r.violation != "NoStaleMark":
        raise ToolError("sensitivity: FailImportKeepsMark model was not rejected (got %s / %s)" % (r.violation, r.error))
    ctx.stage("model-sensitivity", variant="AsImplemented (FailImportKeepsMark)", tlc_verdict="NoStaleMark violated (as required)")
    # ---- liveness: every attempt terminates (fairness, no state constraint)
    r = run_tlc("MCLoader.tla", "MCLoader_live.cfg", ctx.dir, workers=8, timeout=1800)
    require_clean(r, "MCLoader liveness")
    ctx.add_tlc(r, "MCLoader_live(<>Done under WF)")
    # ---- exhaustive universe
    cfgs = ["MCLoader_quick.cfg"] if tier == "quick" else ["MCLoader_thorough.cfg", "MCLoader_thorough2.cfg"]
    vecs = []
    for c in cfgs:
        r = run_tlc("MCLoader.tla", c, ctx.dir, workers=12, timeout=3000, coverage=(tier == "thorough"))
        require_clean(r, c)
        ctx.add_tlc(r, c)
        vecs += r.vecs
    seen = {}
    for v in vecs:
        seen[canon(v)] = v
    vecs = [seen[k] for k in sorted(seen)]
    if not vecs:
        raise ToolError("MCLoader produced no vectors")
    for v in vecs:
        if any(h["out"] != "Ok" for h in v["history"]):
            ctx.nontrivial_key(v)
    # registered sources: every configuration whose kinds can be expressed without files
    reg = [v for v in vecs if all(k in ("ok", "fault", "missing") for k in v["kind"])]
    run_vectors(ctx, reg, "registered", "replay-reg")
    # files next to a program in a directory other than the process cwd
    rng = random.Random(ctx.seed)
    filev = [v for v in vecs if any(k not in ("ok", "fault", "missing") for k in v["kind"])]
    rest = [v for v in vecs if all(k in ("ok", "fault", "missing") for k in v["kind"])]
    small = [v for v in rest if sum(1 for x in v["imports"] if x) + sum(1 for k in v["kind"] if k != "ok") <= 2]
    sample = rng.sample(rest, min(len(rest), 2000 if tier == "quick" else 20000))
    fv = filev + small + sample
    run_vectors(ctx, fv, "files", "replay-files")
    # the same graphs with every library file also holding (ignored) definitions of the other names
    bv = [v for v in fv if len(v["history"]) >= 2][: (3000 if tier == "quick" else 30000)]
    run_vectors(ctx, bv, "bundled", "replay-bundled")
    ctx.stage("replay", vectors=len(vecs), registered=len(reg), files=len(fv), bundled_files=len(bv), exhaustive=True)
    # ---- one declaration naming two libraries, in both orders: what the declaration leaves behind (which of the two
    # libraries' names are bound afterwards) depends on the library graph, not on the order in which the sets are written
    graphs = {}
    for v in reg:
        graphs.setdefault(canon([v["imports"], v["kind"]]), v)
    decl_jobs, decl_meta = [], []
    for key in sorted(graphs)[: (400 if tier == "quick" else 5000)]:
        v = graphs[key]
        n = len(v["kind"])
        for a in range(1, n + 1):
            for b in range(a + 1, n + 1):
                for order in ((a, b), (b, a)):
                    j, first = session(len(decl_jobs), v["imports"], v["kind"], [], "registered")
                    j["steps"].append({"op": "eval", "i": 0, "text": "(import %s %s)" % (lname(order[0]), lname(order[1]))})
                    j["steps"] += [{"op": "eval", "i": 0, "text": "v%d" % a}, {"op": "eval", "i": 0, "text": "v%d" % b}]
                    decl_jobs.append(j); decl_meta.append((key, a, b, order, first))
    dres = run_jobs(decl_jobs, ctx.dir, tag="declaration-order", timeout=2400)
    seen_decl = {}
    for (key, a, b, order, first), res in zip(decl_meta, dres):
        if res.get("skipped") or res.get("crashed"):
            continue
        rs = res["results"][first:]
        if len(rs) < 3:
            continue
        bound = tuple(o.get("k") == "value" for o in rs[1:3])
        outcome = observed_out(rs[0])
        ctx.count(evaluations=1, validated=1)
        k2 = (key, a, b)
        if k2 in seen_decl and seen_decl[k2][1] != bound:
            v = graphs[key]
            other = seen_decl[k2]
            ctx.violation([{"kind": "vector", "value": "declaration | %s | (l%d) (l%d)" % (describe(v["imports"], v["kind"]), a, b)}],
                          "libraries {%s}: (import (l%d) (l%d)) ended with %s and left v%d/v%d bound = %s; the same two sets written in the other order ended with %s and left %s"
                          % (describe(v["imports"], v["kind"]), order[0], order[1], outcome, a, b, list(bound), other[0], list(other[1])),
                          {"stage": "declaration-order", "imports": v["imports"], "kind": v["kind"], "pair": [a, b]})
        seen_decl.setdefault(k2, (outcome, bound))
    ctx.stage("declaration-order", declarations=len(decl_jobs))
    for v in vecs[:: max(1, len(vecs) // 3)][:3]:
        ctx.sample({"libraries": describe(v["imports"], v["kind"]), "history": v["history"], "allowed": v["cands"]})
    # ---- simulation walks over larger worlds (4 libraries) in thorough
    # ---- validate: impl -> spec on random larger graphs and longer histories
    nconf = 150 if tier == "quick" else 2500
    confs, jobs, firsts, modes = [], [], [], []
    filebase = os.path.join(ctx.dir, "files-validate")
    shutil.rmtree(filebase, ignore_errors=True)
    for c in range(nconf):
        n = rng.randint(2, 6)
        imports, kind = gen_config(rng, n)
        attempts = [rng.randint(1, n) for _ in range(rng.randint(1, 6))]
        regable = all(k in ("ok", "fault", "missing") for k in kind)
        mode = "registered" if (regable and rng.random() < 0.5) else rng.choice(["files", "bundled"])
        fd = make_files(filebase, c, imports, kind, bundled=(mode == "bundled")) if mode != "registered" else None
        j, first = session(c, imports, kind, attempts, mode, fd)
        confs.append((imports, kind, attempts)); jobs.append(j); firsts.append(first); modes.append(mode)
    results = run_jobs(jobs, ctx.dir, tag="validate", timeout=2400)
    shutil.rmtree(filebase, ignore_errors=True)
    tpath = os.path.join(ctx.dir, "trace.ndjson")
    index = []
    with open(tpath, "w") as f:
        for c, ((imports, kind, attempts), res, first, mode) in enumerate(zip(confs, results, firsts, modes)):
            f.write(json.dumps({"ev": "config", "imports": imports, "kind": kind}) + "\n"); index.append((c, -1))
            for k, (o, marks) in enumerate(observe(res, first, len(attempts)) or []):
                f.write(json.dumps({"ev": "attempt", "lib": attempts[k], "out": o, "marks": marks}) + "\n"); index.append((c, k))
    tr = run_tlc("LoaderTrace.tla", "LoaderTrace.cfg", ctx.dir, workers=1, timeout=2400, xss="512m", deque=True,
                 env={"TRACE": tpath}, want_tags=("MISMATCH",))
    done = [m for m in tr.msgs if m[0] == "DONE"]
    if tr.error or tr.violation or not done or done[0][1]["events"] != len(index):
        raise ToolError("LoaderTrace did not consume the whole trace: error=%s violation=%s" % (tr.error, tr.violation))
    ctx.add_tlc(tr, "LoaderTrace")
    for m in tr.vecs:
        c, k = index[m["event"] - 1]
        imports, kind, attempts = confs[c]
        sigs = [sig_for(imports, kind, attempts[:k + 1], modes[c])]
        if str(m["observed"]).startswith("Panic@"):
            sigs.append({"kind": "panic_site", "value": m["observed"][6:]})
        ctx.violation(sigs, "%s libraries {%s}, attempts %s: attempt %d gave %s marks %s; LoaderTrace expects %s marks %s" %
                      (modes[c], describe(imports, kind), attempts, k + 1, m["observed"], m["observedMarks"], m["expected"], m["specMarks"]),
                      {"stage": "validate", "mode": modes[c], "imports": imports, "kind": kind, "attempts": attempts})
    ctx.count(evaluations=len(index), validated=nconf)
    for cf in confs:
        ctx.nontrivial_key(cf)
    ctx.stage("validate", configurations=nconf, events=len(index), mismatches=len(tr.vecs))
    ctx.cov["exhaustive"] = True
    ctx.assumptions += ["a faulting library body is (car N); wrong-name, malformed and non-UTF-8 libraries exist only as files",
                        "when a cycle and a failing library (or several failing libraries) are reachable, any of their errors is accepted (the statement does not order them)"]
    return ctx.finish(rule="exhaustive: every graph on 3 libraries x node kinds (<=1 faulty quick) x history of attempts printed by TLC from MCLoader, replayed as registered sources and as files; "
                           "validate: random graphs on 2..6 libraries with histories up to 6 attempts checked by LoaderTrace.tla; non-trivial = distinct vector with at least one failing attempt")


def replay(ctx, case):
    if case.get("stage") == "replay":
        v = case["vec"]
        mode = case["mode"]
        fd = make_files(os.path.join(ctx.dir, "files-replay"), 0, v["imports"], v["kind"], bundled=(mode == "bundled")) if mode != "registered" else None
        j, first = session(0, v["imports"], v["kind"], [h["lib"] for h in v["history"]], mode, fd)
        res = run_jobs([j], ctx.dir, tag="replay1")[0]
        log("libraries:", describe(v["imports"], v["kind"]))
        log("observed:", observe(res, first, len(v["history"])))
        log("expected:", [(h["out"], h["marks"]) for h in v["history"]], "allowed:", v["cands"])
        compare_vec(ctx, v, mode, res, first)
    else:
        imports, kind, attempts, mode = case["imports"], case["kind"], case["attempts"], case["mode"]
        fd = make_files(os.path.join(ctx.dir, "files-replay"), 0, imports, kind, bundled=(mode == "bundled")) if mode != "registered" else None
        j, first = session(0, imports, kind, attempts, mode, fd)
        res = run_jobs([j], ctx.dir, tag="replay1")[0]
        log("libraries:", describe(imports, kind), "attempts:", attempts)
        log("observed:", observe(res, first, len(attempts)))
        log("(re-run the check for the specification's verdict)")
        return 1
    return 1 if ctx.nviol else 0
