# C17 Running a program file: output, diagnostics and exit status
import random, os, re, json, concurrent.futures
from .common import *
from . import scheme as S, gen as G
from .c18 import split_lines, strip_ansi, cps

VARIANTS = [("\n", True), ("\n", False), ("\r\n", True), ("\r\n", False)]
IMPORT = "(import (scheme base) (scheme write))"


def write_program(path, form_texts, eol, final_newline, rng=None):
    lines = []
    for t in form_texts:
        lines += split_lines(rng, t) if rng else [t]
    data = eol.join(lines) + (eol if final_newline else "")
    with open(path, "w", newline="") as f:
        f.write(data)


def run_binary(binp, arg, cwd):
    p = subprocess.run([binp, arg], cwd=cwd, stdout=subprocess.PIPE, stderr=subprocess.PIPE, timeout=60)
    out = p.stdout.decode(errors="replace")
    err = strip_ansi(p.stderr.decode(errors="replace"))
    lines = err.split("\n")
    if lines and lines[-1] == "":
        lines = lines[:-1]
    return out, lines, p.returncode


def display_text(entries):
    """stdout denoted by the machine's display/newline records (integers only in the MC family)"""
    out = ""
    for e in entries:
        if e.get("t") == "newline":
            out += "\n"
        elif e.get("t") == "display":
            out += S.render_datum_loose(e["v"])
    return out


def run_trace(ctx, events, tag, shards=8):
    files = []
    for sh in range(shards):
        part = events[sh::shards]
        path = os.path.join(ctx.dir, "%s.trace%d.ndjson" % (tag, sh))
        with open(path, "w") as f:
            for _, e in part:
                f.write(json.dumps(e, separators=(",", ":")) + "\n")
        files.append((path, part))

    def one(sh):
        return run_tlc("CliTrace.tla", "CliTrace.cfg", ctx.dir, tag="%s.cl%d" % (tag, sh), workers=1, timeout=3000,
                       xss="512m", xmx="3g", env={"TRACE": files[sh][0]}, want_tags=("MISMATCH",))
    bad = []
    with concurrent.futures.ThreadPoolExecutor(max_workers=shards) as ex:
        for sh, tr in enumerate(ex.map(one, range(shards))):
            if not files[sh][1]:
                continue
            done = [m for m in tr.msgs if m[0] == "DONE"]
            if tr.error or tr.violation or not done or done[0][1]["events"] != len(files[sh][1]):
                tail = "".join(open(tr.path, errors="replace").readlines()[-25:])
                raise ToolError("CliTrace shard %d did not consume its trace: %s %s\n%s" % (sh, tr.error, tr.violation, tail))
            ctx.add_tlc(tr, "CliTrace:%s:%d" % (tag, sh))
            for m in tr.vecs:
                bad.append(files[sh][1][m["event"] - 1][0])
    return bad


def run(ctx):
    tier = ctx.tier
    build_harness()
    binp = build_binary()
    rng = random.Random(ctx.seed)
    base = os.path.join(ctx.dir, "progs")
    shutil.rmtree(base, ignore_errors=True)
    os.makedirs(os.path.join(base, "cwd"), exist_ok=True)
    cwd = os.path.join(base, "cwd")
    # ---- MC: the observables as functions of per-form outcomes, on every small program; replayed through the binary
    r = run_tlc("MCMachine.tla", "MCMachine_cli.cfg", ctx.dir, workers=12, timeout=1200)
    require_clean(r, "MCMachine cli")
    ctx.add_tlc(r, "MCMachine_cli (CliLaw)")
    vecs = sorted(r.vecs, key=lambda v: canon(v["forms"]))
    events = []
    for k, v in enumerate(vecs):
        # the driver starts from an empty environment: the program imports the standard libraries itself
        texts = [IMPORT] + [S.render(f) for f in v["forms"]]
        forms = [{"k": "none", "shown": [], "msg": [], "located": True}]
        for res in v["results"]:
            forms.append({"k": res["r"]["k"], "shown": cps(display_text(res["out"])), "msg": [], "located": True})
        eol, fin = VARIANTS[k % 4] if tier == "quick" else (None, None)
        for (e, f) in ([(eol, fin)] if tier == "quick" else VARIANTS):
            d = os.path.join(base, "m%d" % k); os.makedirs(d, exist_ok=True)
            path = os.path.join(d, "prog-%s-%s.scm" % ("crlf" if e == "\r\n" else "lf", "nl" if f else "nonl"))
            write_program(path, texts, e, f)
            out, errl, rc = run_binary(binp, path, cwd)
            out = out.replace("\r\n", "\n") if e == "\r\n" else out
            # the message is not predicted by the machine: take it from the diagnostic and let the specification check the shape
            if forms and forms[-1]["k"] == "error" and errl:
                m = re.match(r"^" + re.escape(path) + r"(:\d+:\d+ +| +)(.*)$", errl[0])
                forms[-1] = dict(forms[-1], msg=cps(m.group(2)) if m else cps("<no diagnostic>"))
            events.append(((" ".join(texts), path), {"kind": "program", "forms": forms, "file": cps(path), "stdout": cps(out),
                                                     "stderr": [cps(x) for x in errl], "exit": rc}))
    bad = run_trace(ctx, events, "mc")
    for (text, path) in bad:
        out, errl, rc = run_binary(binp, path, cwd)
        ctx.violation([{"kind": "vector", "value": text + " | " + os.path.basename(path)}],
                      "program %s (%s): stdout %r, stderr %r, exit %d do not follow from the per-form outcomes of the reference machine" % (text, os.path.basename(path), out, errl, rc),
                      {"stage": "mc", "text": text, "variant": os.path.basename(path)})
    ctx.count(evaluations=len(events), validated=len(events))
    for (text, path), _ in events:
        ctx.nontrivial_key(text)
    ctx.stage("replay", programs=len(vecs), runs=len(events), rejected=len(bad), exhaustive=True)
    # ---- missing / unreadable files
    events = []
    for name, make in (("missing.scm", None), ("adir.scm", "dir"), ("notutf8.scm", b"(display 1)\n\xff\xfe(display 2)\n")):
        path = os.path.join(base, name)
        if make == "dir":
            os.makedirs(path, exist_ok=True)
        elif make:
            open(path, "wb").write(make)
        out, errl, rc = run_binary(binp, path, cwd)
        events.append(((name, path), {"kind": "nofile", "forms": [], "file": cps(path), "stdout": cps(out), "stderr": [cps(x) for x in errl], "exit": rc}))
    bad = run_trace(ctx, events, "nofile", shards=1)
    for (name, path) in bad:
        out, errl, rc = run_binary(binp, path, cwd)
        ctx.violation([{"kind": "input", "value": name}], "ruschm %s: stdout %r stderr %r exit %d (a diagnostic naming the file and a non-zero status are required)" % (name, out, errl, rc),
                      {"stage": "nofile", "name": name})
    ctx.count(evaluations=3, validated=3)
    # ---- validate: random displaying programs, compared with the same forms through the library interface
    n = 150 if tier == "quick" else 2000
    progs = []
    for _ in range(n):
        g = rng.random()
        forms = G.core_program(rng, ticks=False) if g < 0.4 else G.derived_program(rng, ticks=False)
        if rng.random() < 0.5:
            forms, _ = G.inject_fault(rng, forms, ticks=False)
        out = []
        for f in forms:
            if f.get("t") == "define":
                out.append(f)
            else:
                out.append(S.app("display", f)); out.append(S.app("newline")) if rng.random() < 0.7 else None
        texts = [S.render(f) for f in out if f is not None]
        if rng.random() < 0.5:
            # white space that is significant at the END of a source line: inside a string spanning lines, and the
            # character literal for a blank
            k = rng.randrange(len(texts) + 1)
            texts = texts[:k] + [rng.choice(['(display "left   \n right\t\n")', '(display (list (char? #\ \n) "a \n"))', '(display "x\n\ny ")'])] + texts[k:]
        if rng.random() < 0.3:
            # a form that is rejected when it is READ (not when it runs): everything before it has run and written its output
            k = rng.randrange(1, len(texts) + 1)
            texts = texts[:k] + [rng.choice([")", "#q", "(if)", "(lambda)", "(display 1 . )", "(let ((x)) x)", "(define)", "12ab"])]
        if any(len(t) > 400 for t in texts):
            continue
        uses_lib = rng.random() < 0.3
        if uses_lib:
            texts = ["(import (scheme base) (scheme write) (helper))"] + texts + ["(display (helper-value))"]
        else:
            texts = [IMPORT] + texts
        progs.append((texts, uses_lib))
    # long programs (more than 16 KiB) full of characters that take two to four bytes: however the file is read in pieces,
    # every piece boundary falls somewhere - for one of the paddings inside a character
    for pad in range(4):
        line = '(display "caf\u00e9 \u017c\u00f3\u0142\u0107 \u65e5\u672c\u8a9e \U0001F600 %s")'
        texts = [IMPORT, "; " + "x" * pad] + [line % ("n%d" % k) for k in range(260)] + ["(newline)"]
        progs.append((texts, False))
    jobs = []
    for i, (texts, uses_lib) in enumerate(progs):
        d = os.path.join(base, "r%d" % i); os.makedirs(d, exist_ok=True)
        if uses_lib:
            # (every third library runs a failing expression in its body, after its definitions: importing it fails)
            tail = " (vector-ref (vector 1 2) 7)" if i % 3 == 0 else ""
            open(os.path.join(d, "helper.sld"), "w").write("(define-library (helper) (import (scheme base)) (export helper-value) (begin (define (helper-value) 'from-helper)%s))\n" % tail)
        steps = [{"op": "new", "i": 0, "stdlib": False, "natives": False}, {"op": "progdir", "i": 0, "path": d}]
        steps += [{"op": "evalcap", "i": 0, "text": t} for t in texts]
        jobs.append({"id": i, "kind": "session", "steps": steps})
    inproc = run_jobs(jobs, ctx.dir, tag="inproc", threads=1, timeout=3000, job_timeout_ms=10000)
    events = []
    for i, ((texts, uses_lib), ip) in enumerate(zip(progs, inproc)):
        if ip.get("skipped") or ip.get("crashed") or ip.get("timedout"):
            continue
        rs = ip["results"][2:]
        if any(o.get("k") == "panic" for o in rs):
            continue
        forms = []
        for o in rs:
            forms.append({"k": o["k"], "shown": o.get("displayed", []), "msg": cps(o.get("msg", "")), "located": bool(o.get("loc"))})
            if o["k"] == "error":
                break
        if uses_lib and i % 3 == 0 and forms and forms[0]["k"] != "error":
            # the reference itself is the code under test: what it must say about THIS form is known by construction
            ctx.violation([{"kind": "input", "value": " ".join(texts) + " | helper.sld with a failing body"}],
                          "program %s: the library (helper) runs (vector-ref (vector 1 2) 7) in its body, yet importing it succeeded (%s)" % (texts[0], json.dumps(rs[0])[:200]),
                          {"stage": "random", "text": " ".join(texts), "variant": "faulty-library"})
        d = os.path.join(base, "r%d" % i)
        for (e, f) in (rng.sample(VARIANTS, 2) if tier == "quick" else VARIANTS):
            path = os.path.join(d, "main-%s-%s.scm" % ("crlf" if e == "\r\n" else "lf", "nl" if f else "nonl"))
            write_program(path, texts, e, f, rng)
            out, errl, rc = run_binary(binp, path, cwd)
            # a line break INSIDE a string literal of a CRLF file: the reference text has LF there; whether the string keeps
            # the carriage return is left open (the statement compares with "the same text")
            out = out.replace("\r\n", "\n") if e == "\r\n" else out
            events.append(((" ".join(texts), path), {"kind": "program", "forms": forms, "file": cps(path), "stdout": cps(out),
                                                     "stderr": [cps(x) for x in errl], "exit": rc}))
    bad = run_trace(ctx, events, "random")
    for (text, path) in bad:
        out, errl, rc = run_binary(binp, path, cwd)
        ctx.violation([{"kind": "input", "value": text}],
                      "program file %s: %s : stdout %r, stderr %r, exit %d differ from evaluating the forms through the library interface" % (os.path.basename(path), text[:400], out[:200], errl, rc),
                      {"stage": "random", "text": text, "variant": os.path.basename(path)})
    ctx.count(evaluations=len(events), validated=len(events))
    for (text, path), _ in events:
        ctx.nontrivial_key(text)
    ctx.stage("validate", programs=len(progs), runs=len(events), rejected=len(bad))
    if events:
        ctx.sample({"program": events[0][0][0][:400]})
    shutil.rmtree(base, ignore_errors=True)
    ctx.assumptions += ["ANSI colour sequences are stripped; exit status compared as zero / non-zero; the binary is run from a directory other than the program's",
                        "the reference for a random program is the same forms evaluated one by one through Interpreter::eval with standard output captured (fd 1 redirected, single-threaded)",
                        "LINE:COL values are not compared here (C15)",
                        "for CRLF program files CR LF in the output is read as LF: the reference evaluates the LF text, and whether a string literal spanning lines keeps its carriage return is not decided by the statement"]
    return ctx.finish(rule="replay: every program of Programs!CliFamily (<= 4 forms: displays, newline, definition, use of a possibly undefined variable, fault after output) in LF/CRLF x final-newline variants through the binary, judged by Cli.tla against the machine's per-form outcomes; "
                           "missing, directory and non-UTF-8 files; validate: random displaying programs with an optional injected fault and a library next to the program, judged by CliTrace.tla against the library interface; non-trivial = distinct program")


def replay(ctx, case):
    log(json.dumps(case)[:1500])
    return 1
