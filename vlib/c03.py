# C03 Mutable state: bindings and vectors are shared by reference
import random, concurrent.futures
from .common import *
from . import scheme as S, machine as M, gen as G


def sigs_fn(forms, tag):
    return [{"kind": "vector", "value": " ".join(S.render(f) for f in forms)}]


def history_job(jid, v):
    steps = [{"op": "new", "i": 0}]
    for f in v["prelude"]:
        steps.append({"op": "eval", "i": 0, "text": S.render(f)})
    for h in v["hist"]:
        steps.append({"op": "eval", "i": 0, "text": S.render(h["form"])})
        steps.append({"op": "eval", "i": 0, "text": S.render(h["probe"])})
    return {"id": jid, "kind": "session", "steps": steps}


def same_partition(a, b):
    return len(a) == len(b) and all((a[i] == a[j]) == (b[i] == b[j]) for i in range(len(a)) for j in range(len(a)))


def compare_history(v, res):
    rs = res["results"][1 + len(v["prelude"]):]
    text = []
    for k, h in enumerate(v["hist"]):
        text.append(S.render(h["form"]))
        if 2 * k + 1 >= len(rs):
            return (k, "not evaluated (earlier panic)", " ".join(text))
        o, p = rs[2 * k], rs[2 * k + 1]
        if not S.outcome_ok(h["expect"], S.to_spec_outcome(o)):
            return (k, "operation %s: the store model expects %s, implementation %s" % (S.render(h["form"]), json.dumps(h["expect"]), json.dumps(S.to_spec_outcome(o))), " ".join(text))
        po = S.to_spec_outcome(p)
        if po.get("k") != "value" or not S.match(h["contents"], po["v"]):
            return (k, "after %s the vector variables must show %s, implementation shows %s" % (S.render(h["form"]), S.render_datum_loose(h["contents"]), json.dumps(po)[:300]), " ".join(text))
        ids = [x.get("id") for x in p["v"].get("xs", [])] if p["v"].get("t") == "list" else []
        if not same_partition(h["aliases"], ids):
            return (k, "after %s the alias classes of the vector variables must be %s, implementation has %s" % (S.render(h["form"]), h["aliases"], ids), " ".join(text))
    return None


def run(ctx):
    tier = ctx.tier
    build_harness()
    for c, b in (("MCStore_broken1.cfg", "set! defines locally"), ("MCStore_broken2.cfg", "vector copied when bound to a parameter")):
        r = run_tlc("MCStore.tla", c, ctx.dir, workers=6, timeout=1200)
        if r.violation != "Refinement":
            raise ToolError("sensitivity: broken machine (%s) was not rejected by the refinement invariant" % b)
        ctx.stage("model-sensitivity", variant=b, tlc_verdict="Refinement violated (as required)")
    cfg = "MCStore_quick.cfg" if tier == "quick" else "MCStore_thorough.cfg"
    r = run_tlc("MCStore.tla", cfg, ctx.dir, workers=12, timeout=3000, xmx="12g")
    require_clean(r, cfg)
    ctx.add_tlc(r, cfg + " (Machine refines Store on every history)")
    vecs = r.vecs
    nsim = 12 if tier == "quick" else 240

    def sim(seed):
        return run_tlc("MCStore.tla", "MCStore_sim.cfg", ctx.dir, tag="sim%d" % seed, workers=1, timeout=3000,
                       simulate="num=%d" % (nsim // 4), depth=41, seed=ctx.seed + seed)
    with concurrent.futures.ThreadPoolExecutor(max_workers=4) as ex:
        for tr in ex.map(sim, range(4)):
            if tr.violation or tr.error:
                raise ToolError("MCStore simulation: %s %s" % (tr.violation, tr.error))
            seen = {}
            for v in tr.vecs:
                seen[canon(v)] = v
            ctx.stage("simulate", walks=len(seen), length=40)
            vecs += list(seen.values())
    shutil.rmtree(os.path.join(SPEC, "states"), ignore_errors=True)
    jobs = [history_job(i, v) for i, v in enumerate(vecs)]
    results = run_jobs(jobs, ctx.dir, tag="replay", timeout=3000)
    for v, res in zip(vecs, results):
        if res.get("skipped"):
            continue
        ctx.count(evaluations=2 * len(v["hist"]), validated=1)
        ctx.nontrivial_key([h["op"] for h in v["hist"]])
        d = compare_history(v, res) if not res.get("crashed") else (0, "process died", "")
        if d:
            forms = [h["form"] for h in v["hist"][: d[0] + 1]]
            ctx.violation(sigs_fn(forms, None), "history %s : %s" % (d[2], d[1]), {"stage": "replay", "vec": v})
    for v in vecs[:: max(1, len(vecs) // 3)][:3]:
        ctx.sample({"history": [S.render(h["form"]) for h in v["hist"]], "last_expected_contents": S.render_datum_loose(v["hist"][-1]["contents"])})
    ctx.stage("replay", histories=len(vecs))
    # ---- validate: random histories with arbitrary expressions around the operations
    rng = random.Random(ctx.seed)
    n = 120 if tier == "quick" else 2000
    progs = [G.store_history(rng, rng.randint(20, 60)) for _ in range(n)]
    mism, results = M.validate_programs(ctx, progs, "validate", maxsteps=40000)
    M.report_mismatches(ctx, progs, mism, sigs_fn)
    for p in progs:
        ctx.nontrivial_key(p)
    ctx.sample({"validated_history": " ".join(S.render(f) for f in progs[0][:12]) + " ..."})
    ctx.stage("validate", histories=n, mismatches=len(mism))
    ctx.assumptions += ["vector identity is observed through Rc pointer identity in the harness (alias classes), never through eq?"]
    return ctx.finish(rule="exhaustive: every history of store operations up to length 4 over 2 counters, a shared pair, 2-3 vector variables, containers and capturing closures (TLC checks Machine refines Store on each), "
                           "replayed with a probe of all vector variables (contents and alias partition) after every step; TLC -simulate walks of 40 steps; "
                           "validate: random 20-60 step histories with arbitrary expressions checked by MachineTrace.tla incl. alias structure; non-trivial = distinct history")


def replay(ctx, case):
    if case.get("stage") == "replay":
        v = case["vec"]
        res = run_jobs([history_job(0, v)], ctx.dir, tag="replay1")[0]
        d = compare_history(v, res)
        log("history:", [S.render(h["form"]) for h in v["hist"]])
        log("implementation:", json.dumps(res["results"][3:])[:2000])
        if d:
            log("differs:", d[1])
            ctx.violation(sigs_fn([h["form"] for h in v["hist"]], None), "replayed: differs", case)
        return 1 if ctx.nviol else 0
    return M.generic_replay(ctx, case, sigs_fn)
