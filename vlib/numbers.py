# C09 / C10: cases over the grid of MCNumbers.tla and random operands, judged by NumbersTrace.tla
import os, json, random, struct, concurrent.futures
from .common import *
from . import scheme as S


def get_grid(ctx):
    r = run_tlc("MCNumbers.tla", "MCNumbers.cfg", ctx.dir, workers=12, timeout=1200, xss="512m")
    require_clean(r, "MCNumbers")
    if len(r.vecs) != 1:
        raise ToolError("MCNumbers did not print the grid")
    ctx.add_tlc(r, "MCNumbers (laws of the oracle on the grid)")
    return r.vecs[0]


def eval_texts(ctx, texts, tag, chunk=400):
    """evaluates independent expressions; returns the harness outcome of each"""
    jobs = []
    for c in range(0, len(texts), chunk):
        steps = [{"op": "new", "i": 0, "natives": False}] + [{"op": "eval", "i": 0, "text": t} for t in texts[c:c + chunk]]
        jobs.append({"id": c, "kind": "session", "steps": steps, "continue_after_panic": True})
    results = run_jobs(jobs, ctx.dir, tag=tag, timeout=3000)
    out = []
    for j, res in zip(jobs, results):
        n = len(j["steps"]) - 1
        rs = res["results"][1:]
        for k in range(n):
            if res.get("skipped"):
                out.append(None)
            elif k < len(rs):
                out.append(rs[k])
            else:
                out.append({"k": "abort" if res.get("crashed") else "notrun"})
    return out


def validate_cases(ctx, cases, tag, shards=8):
    """cases: list of {op, srcs:[...], args:[spec values], text}; evaluates text on the implementation and lets
    NumbersTrace judge. Returns list of (case, observed outcome) that the specification rejects."""
    outs = eval_texts(ctx, [c["text"] for c in cases], tag)
    events = []
    for i, (c, o) in enumerate(zip(cases, outs)):
        if o is None:
            continue
        res = S.to_spec_outcome(o)
        events.append((i, {"op": c["op"], "args": c["args"], "res": res, "id": i}))
    files = []
    for s in range(shards):
        path = os.path.join(ctx.dir, "%s.trace%d.ndjson" % (tag, s))
        with open(path, "w") as f:
            part = events[s::shards]
            for _, e in part:
                f.write(json.dumps(e, separators=(",", ":")) + "\n")
        files.append((path, len(part)))

    def one(s):
        return run_tlc("NumbersTrace.tla", "NumbersTrace.cfg", ctx.dir, tag="%s.nt%d" % (tag, s), workers=1, timeout=3000,
                       xss="512m", xmx="3g", env={"TRACE": files[s][0]}, want_tags=("MISMATCH",))
    bad = []
    with concurrent.futures.ThreadPoolExecutor(max_workers=shards) as ex:
        for s, tr in enumerate(ex.map(one, range(shards))):
            if files[s][1] == 0:
                continue
            done = [m for m in tr.msgs if m[0] == "DONE"]
            if tr.error or tr.violation or not done or done[0][1]["events"] != files[s][1]:
                tail = "".join(open(tr.path, errors="replace").readlines()[-25:])
                raise ToolError("NumbersTrace shard %d did not consume its trace: %s %s\n%s" % (s, tr.error, tr.violation, tail))
            ctx.add_tlc(tr, "NumbersTrace:%s:%d" % (tag, s))
            for m in tr.vecs:
                bad.append((cases[m["id"]], m["observed"]))
    ctx.count(evaluations=len(cases), validated=len(events))
    return bad, outs


def is_number(o):
    return o and o.get("k") == "value" and o["v"].get("t") in ("int", "rat", "real")


def operand_values(ctx, srcs, tag):
    outs = eval_texts(ctx, srcs, tag)
    vals = []
    for s, o in zip(srcs, outs):
        vals.append(S.to_spec_value(o["v"]) if is_number(o) else None)
    return vals, outs


def f32_text(bits):
    x = struct.unpack("<f", struct.pack("<I", bits))[0]
    return "%.9g" % x if "e" not in ("%.9g" % x) else ("%.9g" % x).replace("e+", "e")


def random_operand(rng):
    r = rng.random()
    if r < 0.3:
        return str(rng.choice([rng.randint(-40, 40), rng.randint(-32767, 32767), rng.randint(-2**31 + 1, 2**31 - 1),
                               rng.choice([2147483647, -2147483647, 65535, 65536, 46340, 46341, 16777217, 0, 1, -1])]))
    if r < 0.55:
        n = rng.choice([rng.randint(-50, 50), rng.randint(-32767, 32767), rng.randint(-2**31 + 1, 2**31 - 1)])
        d = rng.choice([rng.randint(1, 50), rng.randint(1, 32767), rng.randint(1, 2**31 - 1)])
        return "%d/%d" % (n, d)
    if r < 0.7:
        a, b = rng.randint(-60, 60), rng.choice([x for x in range(-12, 13) if x != 0])
        return "(/ %d %d)" % (a, b)
    # reals of every class: small dyadic, decimal fractions, large, tiny, subnormal, negative zero
    k = rng.random()
    if k < 0.3:
        txt = "%.9g" % (rng.randint(-4000, 4000) / rng.choice([1, 2, 4, 8, 16, 10, 100, 3, 7]))
    elif k < 0.5:
        txt = f32_text(rng.getrandbits(32) & 0x7F7FFFFF | (rng.getrandbits(1) << 31))
    elif k < 0.6:
        txt = f32_text(rng.getrandbits(23) | (rng.getrandbits(1) << 31))       # subnormal
    elif k < 0.7:
        txt = rng.choice(["-0.0", "0.0", "16777216.0", "16777218.0", "3.4028235e38", "1.17549435e-38", "1e-45"])
    else:
        txt = "%.9g" % (rng.uniform(-1000, 1000))
    if "." not in txt and "e" not in txt:
        txt += ".0"
    if "inf" in txt or "nan" in txt:
        txt = "1.5"
    return txt


def report(ctx, prop, bad, what):
    for c, obs in bad:
        sigs = [{"kind": "input", "value": c["text"]}]
        if isinstance(obs, dict) and str(obs.get("kind", "")).startswith("Panic@"):
            sigs.append({"kind": "panic_site", "value": obs["kind"][6:]})
        ctx.violation(sigs, "%s with operands %s gave %s - rejected by NumbersX!Verdict (%s)" %
                      (c["text"], json.dumps(c["args"]), json.dumps(obs), what),
                      {"stage": "numbers", "case": c})


def grid_cases(grid, vals, ops, arity, rng=None, sample=None):
    n = len(grid)
    idx = [i for i in range(n) if vals[i] is not None]
    cases = []
    if arity == 1:
        tuples = [(i,) for i in idx]
    elif arity == 2:
        tuples = [(i, j) for i in idx for j in idx]
    else:
        if sample is None:
            tuples = [(i, j, k) for i in idx for j in idx for k in idx]
        else:
            tuples = [(rng.choice(idx), rng.choice(idx), rng.choice(idx)) for _ in range(sample)]
    for op in ops:
        for t in tuples:
            srcs = [grid[i]["src"] for i in t]
            cases.append({"op": op, "srcs": srcs, "args": [vals[i] for i in t], "text": "(%s %s)" % (op, " ".join(srcs))})
    return cases


def run_property(ctx, prop, unary, binary, ternary, rule):
    tier = ctx.tier
    build_harness()
    g = get_grid(ctx)
    grid = g["grid"]
    rng = random.Random(ctx.seed)
    vals, outs = operand_values(ctx, [e["src"] for e in grid], "grid")
    # the grid expressions themselves: the implementation's value must be numerically the specification's
    # (judged as the unary case (+ x) = x would be; done here through eqv?-free exact comparison in TLC: case "+" with one arg)
    cases = []
    for e, v, o in zip(grid, vals, outs):
        if v is None:
            ctx.violation([{"kind": "input", "value": e["src"]}] + ([{"kind": "panic_site", "value": o.get("site")}] if o and o.get("k") == "panic" else []),
                          "grid expression %s does not evaluate to a number: %s" % (e["src"], json.dumps(o)[:300]), {"stage": "grid", "src": e["src"]})
        else:
            cases.append({"op": "+", "srcs": [e["src"]], "args": [e["val"]], "text": "(+ %s)" % e["src"]})
    cases += grid_cases(grid, vals, [o for o in g["unary"] if o in unary], 1)
    cases += grid_cases(grid, vals, [o for o in g["binary"] if o in binary], 2)
    nt = 3000 if tier == "quick" else None
    tern = [o for o in g["ternary"] if o in ternary]
    if tier == "quick":
        cases += grid_cases(grid, vals, tern, 3, rng, sample=3000)
    else:
        cases += grid_cases(grid, vals, tern, 3, rng, sample=60000)
    # every triple that contains a pair of numbers with the same binary32 image (computed by the specification),
    # in every position: where chains through converted operands and mixed representations go wrong
    seen_t = set()
    for (a, b) in g.get("confusable", []):
        a, b = a - 1, b - 1
        if vals[a] is None or vals[b] is None:
            continue
        for k in range(len(grid)):
            if vals[k] is None:
                continue
            for t in ((k, a, b), (k, b, a), (a, k, b), (b, k, a), (a, b, k), (b, a, k)):
                seen_t.add(t)
    conf = sorted(seen_t)
    if tier == "quick" and len(conf) * len(tern) > 40000:
        conf = rng.sample(conf, 40000 // max(1, len(tern)))
    for op in tern:
        for t in conf:
            srcs = [grid[i]["src"] for i in t]
            cases.append({"op": op, "srcs": srcs, "args": [vals[i] for i in t], "text": "(%s %s)" % (op, " ".join(srcs))})
    bad, _ = validate_cases(ctx, cases, "grid-cases")
    report(ctx, prop, bad, "grid")
    for c in cases:
        ctx.nontrivial_key(c["text"])
    ctx.stage("grid", numbers=len(grid), cases=len(cases), rejected=len(bad), exhaustive_unary_binary=True)
    ctx.sample({"case": cases[len(cases) // 3]["text"], "operands_as_held_by_the_implementation": cases[len(cases) // 3]["args"]})
    # ---- random operands
    n = 3000 if tier == "quick" else 40000
    srcs = sorted({random_operand(rng) for _ in range(400 if tier == "quick" else 3000)})
    rvals, routs = operand_values(ctx, srcs, "rand-operands")
    pool = [(s, v) for s, v in zip(srcs, rvals) if v is not None]
    rc = []
    allops = [(o, 1) for o in unary] + [(o, 2) for o in binary] * 3 + [(o, rng.choice([3, 4, 5])) for o in ternary]
    for _ in range(n):
        op, ar = rng.choice(allops)
        if op in ternary and ar > 2:
            ar = rng.randint(3, 5)
        ps = [rng.choice(pool) for _ in range(ar)]
        rc.append({"op": op, "srcs": [p[0] for p in ps], "args": [p[1] for p in ps], "text": "(%s %s)" % (op, " ".join(p[0] for p in ps))})
    # the corners of the exact integer range, every pair and some folds, for every arithmetic operation
    arith = [o for o in binary if o in ("+", "-", "*", "/", "floor-quotient", "floor-remainder", "max", "min")]
    if arith:
        corner = [-2147483648, -2147483647, 2147483647, 2147483646, -1, 1, 0, 2, -2, 65536, -65536, 46341, 46340, -46341, 32768, -32768, 3]
        cval = lambda n: {"t": "int", "v": n}
        for op in arith:
            for a in corner:
                for b2 in corner:
                    rc.append({"op": op, "srcs": [str(a), str(b2)], "args": [cval(a), cval(b2)], "text": "(%s %d %d)" % (op, a, b2)})
        for op in [o for o in ternary if o in ("+", "-", "*", "/")]:
            for t in ((-32768, 65536, -1), (-65536, 32768, -1), (-1, -32768, 65536), (2147483647, 1, -1), (-2147483648, -1, -1), (46341, 46341, -1), (-2147483648, 1, -1),
                      (65536, 65536, 0), (2147483647, 2147483647, 2147483647), (-2147483648, -2147483648, 2)):
                rc.append({"op": op, "srcs": [str(x) for x in t], "args": [cval(x) for x in t], "text": "(%s %s)" % (op, " ".join(str(x) for x in t))})
    # numbers that are distinct but close: neighbouring ratios whose cross products exceed 32 bits, ratios next to their own
    # binary32 image, integers around 2^24 .. 2^31 next to reals - every comparison, both orders, and chains
    cmpops = [o for o in binary if o in ("=", "<", ">", "<=", ">=", "max", "min", "eqv?")]
    if cmpops:
        pairs = []
        for _ in range(60 if tier == "quick" else 600):
            k = rng.random()
            if k < 0.4:
                m = rng.choice([rng.randint(46341, 70000), rng.randint(70000, 2**31 - 3), 65536, 65535, 46341, 2**31 - 3])
                sgn = rng.choice(["", "-"])
                pairs.append(("%s%d/%d" % (sgn, m + 1, m), "%s%d/%d" % (sgn, m + 2, m + 1)))
            elif k < 0.6:
                d = rng.choice([2, 3, 5, 7, 9, 11])
                a = rng.choice([2**31 - 1, 2**31 - 3, rng.randint(2**30, 2**31 - 1)])
                pairs.append(("%d/%d" % (a, d), "%d/%d" % (a - rng.choice([1, 2]), d)))
            elif k < 0.8:
                a = rng.choice([2**24 + 1, 2**24 + 3, 2**31 - 1, rng.randint(2**24, 2**31 - 1)])
                pairs.append((str(a), "%d.0" % (a + rng.choice([-1, 0, 1, 2]))))
            else:
                m = rng.randint(3, 2**31 - 1); d = rng.randint(2, 2**31 - 1)
                pairs.append(("%d/%d" % (m, d), "%.9g" % (m / d)))
        nsrcs = sorted({x for p_ in pairs for x in p_})
        nvals, _ = operand_values(ctx, nsrcs, "near-operands")
        val = {s_: v for s_, v in zip(nsrcs, nvals) if v is not None}
        for a, b in pairs:
            if a not in val or b not in val:
                continue
            for op in cmpops:
                for t in ((a, b), (b, a)) + (((a, b, a), (b, a, b), (a, a, b), (b, b, a)) if op in ternary else ()):
                    rc.append({"op": op, "srcs": list(t), "args": [val[x] for x in t], "text": "(%s %s)" % (op, " ".join(t))})
    bad, _ = validate_cases(ctx, rc, "rand-cases")
    report(ctx, prop, bad, "random operands")
    for c in rc:
        ctx.nontrivial_key(c["text"])
    ctx.stage("random", operands=len(pool), cases=len(rc), rejected=len(bad))
    ctx.sample({"case": rc[0]["text"]})
    ctx.assumptions += ["operands are given to the specification as the implementation holds them (numerically interpreted); each grid expression is itself checked as a case",
                        "a ratio with a component above 2^24 may be converted to binary32 in one step or component-wise",
                        "the specification's BigInt/Binary32 arithmetic is cross-checked against numpy.float32 in setup (oracle sanity)"]
    return ctx.finish(rule=rule)
