# Shared machinery of the /verif checks: running TLC, running the Rust harness on the real code,
# recording violations against known findings, writing evidence.
import json, os, re, subprocess, sys, time, hashlib, shutil, glob

VERIF = os.path.dirname(os.path.dirname(os.path.abspath(__file__)))
REPO = os.environ.get("VERIF_REPO", "/repo")
SPEC = os.path.join(VERIF, "spec")
WORK = os.environ.get("VERIF_WORK", os.path.join(VERIF, "work"))      # (overridden only by development sweeps run next to other work)
EVIDENCE = os.environ.get("VERIF_EVIDENCE", os.path.join(VERIF, "evidence"))
HARNESS_DIR = os.path.join(VERIF, "harness")
HARNESS_BIN = os.path.join(HARNESS_DIR, "target", "debug", "verif-harness")
RUSCHM_BIN = os.path.join(HARNESS_DIR, "target", "bin", "debug", "ruschm")
KNOWN = os.path.join(VERIF, "known_findings.json")
NCPU = os.cpu_count() or 8


class ToolError(Exception):
    pass


def log(*a):
    print(*a, flush=True)


# ---------------------------------------------------------------------------------------------
# building the code under test (always from /repo's current working tree)
_built = {}


def cargo_env():
    e = dict(os.environ)
    e["CARGO_NET_OFFLINE"] = "true"
    # the harness's .cargo/config.toml sets the cfg flag and the (relative) target dir; an
    # inherited override would make us run a stale binary
    for k in ("RUSTFLAGS", "CARGO_TARGET_DIR", "CARGO_BUILD_TARGET_DIR", "CARGO_ENCODED_RUSTFLAGS", "CARGO_BUILD_RUSTFLAGS"):
        e.pop(k, None)
    return e


def _tree_digest():
    """content digest of the sources the build depends on (cargo decides staleness by modification time alone: a tree put in
    place with OLDER time stamps than the last build - a restore, another scratch worktree - would otherwise be run stale)"""
    import hashlib
    h = hashlib.sha256(REPO.encode())
    for root in ("src", "tests"):
        for d, _, fs in sorted(os.walk(os.path.join(REPO, root))):
            for f in sorted(fs):
                fp = os.path.join(d, f)
                h.update(fp.encode()); h.update(open(fp, "rb").read())
    for f in ("Cargo.toml", "Cargo.lock", "build.rs"):
        fp = os.path.join(REPO, f)
        if os.path.exists(fp):
            h.update(open(fp, "rb").read())
    return h.hexdigest()


def _force_if_changed(target_dir):
    """forget cargo's fingerprints of the crate under test when its sources are not those of the last build into target_dir"""
    stamp = os.path.join(target_dir, "verif-tree-digest")
    dig = _tree_digest()
    old = open(stamp).read() if os.path.exists(stamp) else None
    if old != dig:
        for fp in glob.glob(os.path.join(target_dir, "debug", ".fingerprint", "ruschm-*")):
            shutil.rmtree(fp, ignore_errors=True)
    return stamp, dig


def build_harness():
    if _built.get("harness"):
        return _built["harness"]
    t = time.time()
    manifest = os.path.join(HARNESS_DIR, "Cargo.toml")
    if REPO != "/repo":
        # mutant runs: point the path dependency at the scratch copy
        txt = open(manifest).read()
        manifest_dir = os.path.join(WORK, "harness-alt")
        os.makedirs(os.path.join(manifest_dir, "src"), exist_ok=True)
        os.makedirs(os.path.join(manifest_dir, ".cargo"), exist_ok=True)
        open(os.path.join(manifest_dir, "Cargo.toml"), "w").write(txt.replace('path = "/repo"', 'path = "%s"' % REPO))
        shutil.copy(os.path.join(HARNESS_DIR, "Cargo.lock"), manifest_dir)
        shutil.copy(os.path.join(HARNESS_DIR, "src", "main.rs"), os.path.join(manifest_dir, "src"))
        cfg = open(os.path.join(HARNESS_DIR, ".cargo", "config.toml")).read()
        open(os.path.join(manifest_dir, ".cargo", "config.toml"), "w").write(cfg)
        cwd = manifest_dir
        binp = os.path.join(manifest_dir, "target", "debug", "verif-harness")
    else:
        cwd = HARNESS_DIR
        binp = HARNESS_BIN
    stamp, dig = _force_if_changed(os.path.join(cwd, "target"))
    p = subprocess.run(["cargo", "build", "--offline", "--quiet"], cwd=cwd, env=cargo_env(),
                       stdout=subprocess.PIPE, stderr=subprocess.STDOUT, text=True)
    if p.returncode != 0:
        raise ToolError("harness build failed:\n" + p.stdout[-4000:])
    open(stamp, "w").write(dig)
    _built["harness"] = binp
    log("[build] harness built from %s in %.1fs" % (REPO, time.time() - t))
    return binp


def build_binary():
    """the ruschm executable itself (a path dependency does not build the dependency's bins)"""
    if _built.get("bin"):
        return _built["bin"]
    t = time.time()
    tdir = os.path.join(HARNESS_DIR, "target", "bin") if REPO == "/repo" else os.path.join(WORK, "harness-alt", "target", "bin")
    os.makedirs(tdir, exist_ok=True)
    stamp, dig = _force_if_changed(tdir)
    p = subprocess.run(["cargo", "build", "--offline", "--quiet", "--manifest-path", os.path.join(REPO, "Cargo.toml"),
                        "--bin", "ruschm", "--target-dir", tdir], env=cargo_env(),
                       stdout=subprocess.PIPE, stderr=subprocess.STDOUT, text=True)
    if p.returncode != 0:
        raise ToolError("ruschm binary build failed:\n" + p.stdout[-4000:])
    open(stamp, "w").write(dig)
    _built["bin"] = os.path.join(tdir, "debug", "ruschm")
    log("[build] ruschm binary built in %.1fs" % (time.time() - t))
    return _built["bin"]


# ---------------------------------------------------------------------------------------------
# harness runs
def _limits(mem_gb):
    def f():
        import resource
        lim = int(mem_gb * (1 << 30))
        resource.setrlimit(resource.RLIMIT_AS, (lim, lim))
        resource.setrlimit(resource.RLIMIT_CORE, (0, 0))
    return f


def _exec_harness(binp, jobs, outdir, tag, threads, timeout, stack_mb, mem_gb=None, job_timeout_ms=0):
    jp = os.path.join(outdir, tag + ".jobs.ndjson")
    op = os.path.join(outdir, tag + ".out.ndjson")
    with open(jp, "w") as f:
        for j in jobs:
            f.write(json.dumps(j, separators=(",", ":")) + "\n")
    if os.path.exists(op):
        os.remove(op)
    status = "ok"
    # address-space limit: a runaway recursion in the code under test must die quickly (it is
    # reported as an abort of that job), not eat the machine
    mem_gb = mem_gb or (threads * stack_mb / 1024.0 + 4.0)
    try:
        p = subprocess.run([binp, "exec", jp, op, "--threads", str(threads), "--stack-mb", str(stack_mb),
                            "--job-timeout-ms", str(job_timeout_ms)],
                           stdout=subprocess.PIPE, stderr=subprocess.PIPE, timeout=timeout, preexec_fn=_limits(mem_gb))
        if p.returncode != 0:
            err = p.stderr.decode(errors="replace")[-2000:]
            status = "crash:%d" % p.returncode
            if p.returncode == 3:
                status = "watchdog"
            elif "overflowed its stack" in err:
                status = "stack-overflow"
            elif "memory allocation" in err and "failed" in err:
                status = "out-of-memory"
    except subprocess.TimeoutExpired:
        status = "timeout"
    res = {}
    if os.path.exists(op):
        for line in open(op):
            line = line.strip()
            if not line:
                continue
            try:
                r = json.loads(line)
            except Exception:
                continue  # torn last line of a killed process
            res[r["idx"]] = r
    return status, res


MAX_ATTRIBUTED_CRASHES = 6


def _exec_chunked(binp, jobs, outdir, tag, threads, timeout, stack_mb, job_timeout_ms):
    """interpreters are not reclaimed completely when dropped (closures and their frames refer to each other), so one
    process is given a bounded amount of work: at most ~250k steps and ~12k interpreters"""
    status, res = "ok", {}
    start = 0
    while start < len(jobs):
        end, steps, news = start, 0, 0
        while end < len(jobs):
            st_ = jobs[end].get("steps", [])
            n_ = sum(1 for x in st_ if x.get("op") == "new") or 1
            if end > start and (steps + len(st_) > 250000 or news + n_ > 12000):
                break
            steps += len(st_) or 1; news += n_; end += 1
        st, r = _exec_harness(binp, jobs[start:end], outdir, tag, threads, timeout, stack_mb, job_timeout_ms=job_timeout_ms)
        for k, v in r.items():
            v["idx"] = start + k; res[start + k] = v
        if st != "ok":
            status = st
            log("[harness] %s: jobs %d..%d ended with %s (%d of %d results)" % (tag, start, end, st, len(r), end - start))
        start = end
    return status, res


def run_jobs(jobs, outdir, tag="jobs", threads=None, timeout=600, per_job_timeout=15, stack_mb=64, job_timeout_ms=0):
    """Runs jobs on the real code. Returns one result per job, in order. A job that kills the
    process (native stack overflow, abort, memory exhaustion) or hangs is re-run alone and reported
    as {"k":"abort"} / {"k":"timeout"} - data, not a tool error. Jobs that merely shared a process with
    a crashing one are re-run. After MAX_ATTRIBUTED_CRASHES crashes have been attributed the rest of
    the missing jobs are returned as {"k":"skipped"}: they are neither passes nor violations (the
    attributed ones already make the check fail) - this bounds the time spent on code that crashes a lot."""
    binp = build_harness()
    os.makedirs(outdir, exist_ok=True)
    threads = threads or min(NCPU, 12)
    status, res = _exec_chunked(binp, jobs, outdir, tag, threads, timeout, stack_mb, job_timeout_ms)
    missing = [i for i in range(len(jobs)) if i not in res]
    if missing and status == "ok":
        raise ToolError("harness lost results without crashing")
    attributed = 0
    rounds = 0
    while missing and attributed < MAX_ATTRIBUTED_CRASHES:
        rounds += 1
        if (len(missing) > 24 and rounds <= 8) or (job_timeout_ms and rounds <= 40 and len(missing) > 1):
            # many missing: most were innocent bystanders of one crash; run them again together,
            # single-threaded chunks so that a crash loses little
            sub = [jobs[i] for i in missing]
            st2, r2 = _exec_chunked(binp, sub, outdir, tag + ".retry", 1 if rounds > 2 else max(1, threads // 2),
                                    timeout, stack_mb, job_timeout_ms)
            got = 0
            for k, i in enumerate(missing):
                if k in r2:
                    r = r2[k]; r["idx"] = i; res[i] = r; got += 1
            missing = [i for i in missing if i not in res]
            if got:
                continue
        i = missing[0]
        st, r1 = _exec_harness(binp, [jobs[i]], outdir, tag + ".solo", 1, per_job_timeout, stack_mb, mem_gb=3.0,
                               job_timeout_ms=job_timeout_ms)
        if 0 in r1:
            r = r1[0]; r["idx"] = i; res[i] = r
        else:
            kind = "timeout" if st == "timeout" else "abort"
            attributed += 1
            res[i] = {"idx": i, "id": jobs[i].get("id"), "k": kind, "status": st,
                      "results": [{"k": kind, "status": st}], "crashed": True}
        missing = [i for i in range(len(jobs)) if i not in res]
    for i in missing:
        res[i] = {"idx": i, "id": jobs[i].get("id"), "k": "skipped", "results": [{"k": "skipped"}], "skipped": True}
    return [res[i] for i in range(len(jobs))]


# ---------------------------------------------------------------------------------------------
# TLC
class TlcResult:
    def __init__(self):
        self.out = ""
        self.vecs = []
        self.generated = 0
        self.distinct = 0
        self.initial = 0
        self.depth = 0
        self.violation = None      # name of a violated invariant/property, if any
        self.error = None          # any other TLC error text
        self.coverage = {}
        self.wall = 0.0
        self.msgs = []             # other PrintT tuples: list of (tag, payload)


_vec_re = re.compile(r'^<<"([A-Z]+)", (".*")>>\s*$')


def parse_tlc_output(path, res, want_tags=("VEC",)):
    cov_re = re.compile(r"^<(\w+) line (\d+), col \d+ to line \d+, col \d+ of module (\w+)>: (\d+):(\d+)")
    with open(path, errors="replace") as f:
        for line in f:
            if line.startswith('<<"'):
                m = _vec_re.match(line)
                if m:
                    tag = m.group(1)
                    try:
                        payload = json.loads(json.loads(m.group(2)))
                    except Exception as e:
                        raise ToolError("cannot parse TLC vector line: %s (%s)" % (line[:200], e))
                    if tag in want_tags:
                        res.vecs.append(payload)
                    else:
                        res.msgs.append((tag, payload))
                    continue
            m = re.search(r"(\d+) states generated, (\d+) distinct states found", line)
            if m:
                res.generated = int(m.group(1)); res.distinct = int(m.group(2))
            m = re.search(r"Finished computing initial states: (\d+) distinct state", line)
            if m:
                res.initial = int(m.group(1))
            m = re.search(r"The depth of the complete state graph search is (\d+)", line)
            if m:
                res.depth = int(m.group(1))
            m = re.search(r"Error: Invariant (\S+) is violated", line)
            if m:
                res.violation = m.group(1)
            m = re.search(r"Error: (Temporal properties were violated|Action property (\S+) is violated|Deadlock reached)", line)
            if m:
                res.violation = m.group(2) or m.group(1)
            if line.startswith("Error:") and res.violation is None and res.error is None:
                res.error = line.strip()
            m = cov_re.match(line)
            if m:
                res.coverage[m.group(1)] = res.coverage.get(m.group(1), 0) + int(m.group(5))
    return res


def run_tlc(module, cfg, outdir, tag=None, workers=8, timeout=1800, simulate=None, env=None, coverage=False,
            xss=None, xmx="8g", deque=False, want_tags=("VEC",), seed=None, depth=None, dump=None):
    os.makedirs(outdir, exist_ok=True)
    tag = tag or os.path.splitext(os.path.basename(cfg))[0]
    meta = os.path.join(outdir, "tlc-" + tag)
    shutil.rmtree(meta, ignore_errors=True)
    outp = os.path.join(outdir, tag + ".tlc.out")
    jopts = ["-Xmx" + xmx]
    if xss:
        jopts.append("-Xss" + xss)
    if deque:
        jopts.append("-Dtlc2.tool.queue.IStateQueue=StateDeque")
    e = dict(os.environ)
    e["JAVA_TOOL_OPTIONS"] = " ".join(jopts)
    if env:
        e.update(env)
    cmd = ["timeout", str(timeout), "tlc", "-workers", str(workers), "-config", cfg, "-metadir", meta,
           "-cleanup", "-noGenerateSpecTE"]
    if coverage:
        cmd += ["-coverage", "1"]
    if simulate:
        cmd += ["-simulate", simulate]
    if depth:
        cmd += ["-depth", str(depth)]
    if seed is not None:
        cmd += ["-seed", str(seed)]
    if dump:
        cmd += ["-dump", "dot,actionlabels", dump]
    cmd.append(module)
    t = time.time()
    with open(outp, "w") as f:
        p = subprocess.run(cmd, cwd=SPEC, env=e, stdout=f, stderr=subprocess.STDOUT)
    res = TlcResult()
    res.wall = time.time() - t
    res.rc = p.returncode
    res.path = outp
    parse_tlc_output(outp, res, want_tags)
    shutil.rmtree(meta, ignore_errors=True)
    if p.returncode == 124:
        raise ToolError("TLC timed out after %ds on %s/%s" % (timeout, module, cfg))
    return res


def require_clean(res, what):
    """an MC run that must succeed: any violation/error inside the *specification* is a tool error
    (the oracle is broken), never a verdict about the code"""
    if res.violation or res.error or res.rc not in (0,):
        tail = "".join(open(res.path, errors="replace").readlines()[-40:])
        raise ToolError("%s: TLC did not finish cleanly (violation=%s error=%s rc=%s)\n%s" %
                        (what, res.violation, res.error, res.rc, tail))


# ---------------------------------------------------------------------------------------------
# violations, known findings, evidence
class Ctx:
    def __init__(self, prop, tier, seed):
        self.prop = prop
        self.tier = tier
        self.seed = seed
        self.t0 = time.time()
        self.dir = os.path.join(WORK, prop)
        os.makedirs(self.dir, exist_ok=True)
        self.replay_dir = os.path.join(self.dir, "replay")
        shutil.rmtree(self.replay_dir, ignore_errors=True)
        os.makedirs(self.replay_dir, exist_ok=True)
        self.violations = []   # (sig, what, replay_path)
        self.cov = {"states": 0, "transitions": 0, "traces_validated_against_impl": 0, "samples": [],
                    "evaluations": 0, "distinct_nontrivial": 0, "stages": []}
        self.assumptions = []
        self.known = load_known().get("findings", [])
        self.known_hit = {}
        self.nviol = 0
        self.nontrivial = set()

    def add_tlc(self, res, name):
        self.cov["states"] += res.distinct
        self.cov["transitions"] += max(res.generated - res.initial, 0)
        self.cov["stages"].append({"stage": name, "tlc_distinct_states": res.distinct, "tlc_states_generated": res.generated,
                                   "tlc_wall_s": round(res.wall, 1), "vectors": len(res.vecs)})
        if res.coverage:
            self.cov.setdefault("tlc_coverage", {})[name] = res.coverage

    def stage(self, name, **kw):
        d = {"stage": name}
        d.update(kw)
        self.cov["stages"].append(d)

    def sample(self, x, limit=6):
        if len(self.cov["samples"]) < limit:
            self.cov["samples"].append(x)

    def count(self, evaluations=0, validated=0):
        self.cov["evaluations"] += evaluations
        self.cov["traces_validated_against_impl"] += validated

    def nontrivial_key(self, key):
        self.nontrivial.add(key if isinstance(key, str) else json.dumps(key, sort_keys=True))

    def match_known(self, sigs):
        for k in self.known:
            if k.get("property") != self.prop:
                continue
            ks = k.get("sig", {})
            for s in sigs:
                if s.get("kind") == ks.get("kind") and s.get("value") == ks.get("value"):
                    return k
        return None

    def violation(self, sigs, what, replay):
        """sigs: list of candidate signatures {kind,value} describing the *input side* only."""
        if isinstance(sigs, dict):
            sigs = [sigs]
        k = self.match_known(sigs)
        if k is not None:
            key = json.dumps(k["sig"], sort_keys=True)
            self.known_hit[key] = (k, self.known_hit.get(key, (k, 0))[1] + 1)
            return False
        self.nviol += 1
        if self.nviol <= 25:
            path = os.path.join(self.replay_dir, "%d.json" % self.nviol)
            with open(path, "w") as f:
                json.dump({"property": self.prop, "sigs": sigs, "what": what, "case": replay}, f, indent=1)
            log("VIOLATION property=%s replay=%s" % (self.prop, path))
            log("  what: %s" % what[:600])
            log("  sig: %s" % json.dumps(sigs)[:400])
        return True

    def finish(self, level="model_checking", rule="", extra=None):
        for key, (k, n) in self.known_hit.items():
            log("KNOWN-FINDING: property=%s %s (%d case(s) this run)" % (self.prop, k.get("what", ""), n))
        # listed findings that did not show up in this run are reported (a repair would be noticed)
        self.cov["distinct_nontrivial"] = len(self.nontrivial)
        self.cov["rule"] = rule
        self.cov["known_findings_hit"] = [k.get("what", "") for (k, n) in self.known_hit.values()]
        if extra:
            self.cov.update(extra)
        ev = {"property_id": self.prop, "tier": self.tier, "seed": self.seed, "level": level,
              "coverage": self.cov, "assumptions": self.assumptions,
              "wall_s": round(time.time() - self.t0, 1), "violations": self.nviol}
        os.makedirs(EVIDENCE, exist_ok=True)
        with open(os.path.join(EVIDENCE, self.prop + ".json"), "w") as f:
            json.dump(ev, f, indent=1)
        if self.nviol:
            log("[%s] %d violation(s) (first %d written to %s)" % (self.prop, self.nviol, min(self.nviol, 25), self.replay_dir))
            return 1
        log("[%s] held on everything explored (%s tier, %.0fs)" % (self.prop, self.tier, time.time() - self.t0))
        return 0


def load_known():
    if os.path.exists(KNOWN):
        return json.load(open(KNOWN))
    return {"findings": [], "fixed": []}


def canon(x):
    return json.dumps(x, sort_keys=True, separators=(",", ":"))


def short_hash(x):
    return hashlib.sha1(canon(x).encode()).hexdigest()[:12]
