# C10 Numeric comparison is the mathematical order
from .common import *
from . import numbers as N

BINARY = ["=", "<", ">", "<=", ">=", "max", "min", "eqv?"]
TERNARY = ["=", "<", ">", "<=", ">=", "max", "min"]


def run(ctx):
    return N.run_property(ctx, "C10", [], BINARY, TERNARY,
                          "every predicate, max, min and eqv? over all pairs of the 75-number grid (every internal representation against every other), sampled triples, "
                          "and random tuples of length 2-5; each judged by NumbersX!Verdict in NumbersTrace.tla; non-trivial = distinct case")


def replay(ctx, case):
    c = case["case"]
    bad, outs = N.validate_cases(ctx, [c], "replay1", shards=1)
    log("case:", c["text"], "operands:", json.dumps(c["args"]))
    log("implementation:", json.dumps(outs[0]))
    N.report(ctx, "C10", bad, "replay")
    return 1 if ctx.nviol else 0
