# C13 Libraries are encapsulated and loaded once per program
import random, os, json, shutil, concurrent.futures
from .common import *
from . import scheme as S


def lib_source(lib, layout=0):
    """layout: the order of the library declarations, which has no meaning (R7RS 5.6.1: exports name bindings of the
    library, whatever the body does to them before it has run to its end): 0 import/export/begin, 1 import/begin/export,
    2 import/begin/export/begin with the body split in two"""
    imps = "".join(" (%s)" % i for i in lib["imports"])
    exps = " ".join(e[0] if e[0] == e[1] else "(rename %s %s)" % (e[0], e[1]) for e in lib["exports"])
    forms = [S.render(f) for f in lib["body"]]
    head = "(define-library (%s)\n  (import (scheme base)%s)" % (lib["name"], imps)
    if lib.get("bare"):
        head = "(define-library (%s)" % lib["name"]          # no import declaration at all
    if lib.get("solo"):
        # the library's own imports as a declaration of their own, ahead of (scheme base) (which this body does not need:
        # layout 2 leaves it out)
        head = "(define-library (%s)\n  (import%s)%s" % (lib["name"], imps, "" if layout == 2 else "\n  (import (scheme base))")
    exp = "\n  (export %s)" % exps
    beg = lambda fs: "\n  (begin\n    %s)" % "\n    ".join(fs)
    if layout == 1 or len(forms) < 2:
        return head + (exp + beg(forms) if layout == 0 else beg(forms) + exp) + ")\n"
    if layout == 2:
        k = max(1, len(forms) // 2)
        return head + beg(forms[:k]) + exp + beg(forms[k:]) + ")\n"
    return head + exp + beg(forms) + ")\n"


def import_text(names, prefixes):
    sets = ["(%s)" % n if not p else "(prefix (%s) %s)" % (n, p) for n, p in zip(names, prefixes)]
    return "(import " + " ".join(sets) + ")"


def world_libs(v):
    w = v["world"]
    return w if isinstance(w, list) else list(w.values())


def job_for(jid, v, mode, filedir=None):
    steps = [{"op": "new", "i": 0}]
    if mode == "registered":
        for lib in world_libs(v):
            steps.append({"op": "reglib", "i": 0, "name": [lib["name"]], "text": lib_source(lib, jid % 3)})
    else:
        steps.append({"op": "progdir", "i": 0, "path": filedir})
    first = len(steps)
    steps.append({"op": "eval", "i": 0, "text": import_text(v["imports"], v["prefixes"])})
    for h in v["hist"]:
        steps.append({"op": "eval", "i": 0, "text": S.render(h["form"])})
    return {"id": jid, "kind": "session", "steps": steps}, first


def compare(v, res, first):
    rs = res["results"]
    if "patcher" in v["imports"]:
        # (patcher) assigns names it imported.  The statement does not say that a library MAY do so (R7RS calls it an error):
        # an implementation that refuses - when the library is loaded, or when patch! runs - is not judged on that history
        refused = first < len(rs) and rs[first].get("k") == "error"
        for k, h in enumerate(v["hist"]):
            at = first + 1 + k
            if S.render(h["form"]) == "(patch!)" and at < len(rs) and rs[at].get("k") == "error":
                refused = True
        if refused:
            return None
    if first >= len(rs) or rs[first].get("k") != "none":
        return "the import declaration %s failed: %s" % (import_text(v["imports"], v["prefixes"]), json.dumps(rs[first] if first < len(rs) else rs[-1])[:300])
    for k, h in enumerate(v["hist"]):
        at = first + 1 + k
        if at >= len(rs):
            return "operation %d not evaluated (earlier panic: %s)" % (k, json.dumps(rs[-1])[:200])
        if not S.outcome_ok(h["r"], S.to_spec_outcome(rs[at])):
            return "operation %d %s: the module-system model yields %s, the implementation %s" % (k, S.render(h["form"]), json.dumps(h["r"]), json.dumps(S.to_spec_outcome(rs[at])))
    return None


def describe(v):
    return "%s %s" % (import_text(v["imports"], v["prefixes"]), " ".join(S.render(h["form"]) for h in v["hist"]))


def run(ctx):
    tier = ctx.tier
    build_harness()
    r = run_tlc("MCLibs.tla", "MCLibs_asimpl.cfg", ctx.dir, workers=6, timeout=1200)
    if r.violation != "OneInstance":
        raise ToolError("sensitivity: the re-instantiating model was not rejected")
    ctx.stage("model-sensitivity", variant="Reinstantiate (every import evaluates the library again, as the implementation was found)", tlc_verdict="OneInstance violated (as required)")
    # (histories of 4 operations over the present world - 26 operations, 8 import declarations - are 3.6 million: the thorough
    # tier keeps the exhaustive length 3, replays every history in both library modes and adds many more random walks)
    cfg = "MCLibs_quick.cfg"
    r = run_tlc("MCLibs.tla", cfg, ctx.dir, workers=12, timeout=3000, xmx="12g")
    require_clean(r, cfg)
    ctx.add_tlc(r, cfg + " (OneInstance, ExportedOnly, LibraryFramesAreRoots, SharedState)")
    vecs = r.vecs
    r = run_tlc("MCLibs.tla", "MCLibs_patch.cfg", ctx.dir, workers=4, timeout=3000)
    require_clean(r, "MCLibs_patch.cfg")
    ctx.add_tlc(r, "MCLibs_patch.cfg (two libraries importing (counter) alone, one of which assigns imported names at load time and on request)")
    vecs += r.vecs
    nsim = 12 if tier == "quick" else 400

    def sim(seed):
        return run_tlc("MCLibs.tla", "MCLibs_sim.cfg", ctx.dir, tag="sim%d" % seed, workers=1, timeout=3000,
                       simulate="num=%d" % (nsim // 4), depth=13, seed=ctx.seed + seed)
    with concurrent.futures.ThreadPoolExecutor(max_workers=4) as ex:
        for tr in ex.map(sim, range(4)):
            if tr.violation or tr.error:
                raise ToolError("MCLibs simulation: %s %s" % (tr.violation, tr.error))
            seen = {}
            for v in tr.vecs:
                seen[canon(v)] = v
            ctx.stage("simulate", walks=len(seen), length=12)
            vecs += list(seen.values())
    shutil.rmtree(os.path.join(SPEC, "states"), ignore_errors=True)
    # files: one directory with the .sld files, used as the program directory (not the process cwd)
    fdir = os.path.join(ctx.dir, "libs", "prog")
    shutil.rmtree(os.path.join(ctx.dir, "libs"), ignore_errors=True); os.makedirs(fdir)
    for layout in (0, 1, 2):
        os.makedirs(fdir + str(layout))
        for lib in world_libs(vecs[0]):
            open(os.path.join(fdir + str(layout), lib["name"] + ".sld"), "w").write(lib_source(lib, layout))
    for mode in ("registered", "files"):
        jobs, firsts = [], []
        # (quick: the file-based run takes every second history; both modes go through the same loader above the factory)
        mv = vecs if (mode == "registered" or tier != "quick") else vecs[::2]
        for i, v in enumerate(mv):
            j, f = job_for(i, v, mode, fdir + str(i % 3))
            jobs.append(j); firsts.append(f)
        results = run_jobs(jobs, ctx.dir, tag="replay-" + mode, timeout=3000)
        for v, res, f in zip(mv, results, firsts):
            if res.get("skipped"):
                continue
            ctx.count(evaluations=1 + len(v["hist"]), validated=1)
            ctx.nontrivial_key(describe(v))
            why = "process died" if res.get("crashed") else compare(v, res, f)
            if why:
                ctx.violation([{"kind": "vector", "value": mode + " | " + describe(v)}], "%s libraries; %s : %s" % (mode, describe(v), why),
                              {"stage": "replay", "mode": mode, "vec": v})
    shutil.rmtree(os.path.join(ctx.dir, "libs"), ignore_errors=True)
    ctx.stage("replay", histories=len(vecs), modes=["registered", "files"], exhaustive=True)
    ctx.sample({"program": describe(vecs[len(vecs) // 2]), "libraries": [lib_source(l) for l in world_libs(vecs[0])]})
    ctx.assumptions += ["imports precede every other form of the program (Ruschm rejects a later import; the properties are silent)",
                        "the library declarations are written in three orders (export before, after and between two halves of the body)"]
    return ctx.finish(rule="every program of one import declaration (8 variants incl. the same library twice under a prefix, libraries that import the stateful one directly and through another library, a library without imports) followed by 3 operations out of 26 "
                           "(calls of exports incl. renamed, swapped and re-exported ones, redefinition of an imported name, colliding helper, unexported and internal names, free names of library procedures, a variable assigned at the end of the body), plus TLC -simulate walks of 12 operations; library declarations written in three orders; "
                           "libraries as registered sources and as .sld files; non-trivial = distinct program")


def replay(ctx, case):
    v = case["vec"]
    mode = case["mode"]
    fdir = os.path.join(ctx.dir, "libs-replay", "prog")
    os.makedirs(fdir, exist_ok=True)
    for lib in world_libs(v):
        open(os.path.join(fdir, lib["name"] + ".sld"), "w").write(lib_source(lib))
    j, f = job_for(0, v, mode, fdir)
    res = run_jobs([j], ctx.dir, tag="replay1")[0]
    log("program:", describe(v)); log("implementation:", json.dumps(res["results"][f:])[:1500]); log("specification:", json.dumps([h["r"] for h in v["hist"]]))
    why = compare(v, res, f)
    if why:
        ctx.violation([{"kind": "vector", "value": mode + " | " + describe(v)}], why, case)
    return 1 if ctx.nviol else 0
