# C04 syntax-rules expansion selects the first matching rule and fills its template
import random, os, json, concurrent.futures
from .common import *
from . import scheme as S


def rd(d):
    return S.render_datum(d)


def macro_text(rules, lits):
    rs = " ".join("((m%s) '%s)" % ("".join(" " + rd(p) for p in r["pat"]), rd(r["tmpl"])) for r in rules)
    return "(define-syntax m (syntax-rules (%s) %s))" % (" ".join(lits), rs)


def use_text(args):
    return "(m%s)" % "".join(" " + rd(a) for a in args)


def as_value(d):
    t = d["t"]
    if t == "vlit":
        return {"t": "vec", "xs": [as_value(x) for x in d["xs"]]}
    if t == "pair":
        return {"t": "pair", "a": as_value(d["a"]), "d": as_value(d["d"])}
    return d


def sig(rules, lits, args):
    return [{"kind": "vector", "value": macro_text(rules, lits) + " " + use_text(args)}]


def run_rule_sets(ctx, groups, tag):
    """groups: list of (rules, lits, [args...]); one interpreter per rule set"""
    jobs = []
    for i, (rules, lits, uses) in enumerate(groups):
        steps = [{"op": "new", "i": 0, "natives": False}, {"op": "eval", "i": 0, "text": macro_text(rules, lits)}]
        steps += [{"op": "eval", "i": 0, "text": use_text(a)} for a in uses]
        jobs.append({"id": i, "kind": "session", "steps": steps, "continue_after_panic": True})
    return run_jobs(jobs, ctx.dir, tag=tag, timeout=3000, job_timeout_ms=20000)


def run(ctx):
    tier = ctx.tier
    build_harness()
    cfgs = ["MCMacro_quick.cfg", "MCMacro_pairs.cfg"] if tier == "quick" else ["MCMacro_laws.cfg", "MCMacro_thorough.cfg", "MCMacro_quick.cfg", "MCMacro_pairs_thorough.cfg"]
    vecs = []
    for c in cfgs:
        r = run_tlc("MCMacro.tla", c, ctx.dir, workers=12, timeout=3000, xmx="16g")
        require_clean(r, c)
        ctx.add_tlc(r, c + " (laws of the matcher on every case)")
        vecs += r.vecs
    lits = ["lit", "kw"]
    groups = {}
    for v in vecs:
        groups.setdefault(canon(v["rules"]), (v["rules"], [])) [1].append(v)
    glist = [(rules, lits, [v["args"] for v in vs]) for rules, vs in groups.values()]
    gvecs = [vs for rules, vs in groups.values()]
    results = run_rule_sets(ctx, glist, "replay")
    for (rules, _, uses), vs, res in zip(glist, gvecs, results):
        if res.get("skipped"):
            continue
        rs = res["results"]
        if len(rs) < 2 or rs[1].get("k") != "none":
            ctx.violation(sig(rules, lits, []), "%s : the definition is not accepted: %s" % (macro_text(rules, lits), json.dumps(rs[1] if len(rs) > 1 else rs[-1])[:300]),
                          {"stage": "replay", "rules": rules, "args": []})
            continue
        for k, v in enumerate(vs):
            ctx.count(evaluations=1, validated=1)
            o = rs[2 + k] if 2 + k < len(rs) else {"k": "abort" if res.get("crashed") else "notrun"}
            obs = S.to_spec_outcome(o)
            exp = v["res"]
            ok = (obs.get("k") == "error" and obs.get("kind") == "Syntax") if exp["k"] == "nomatch" else (obs.get("k") == "value" and S.match(as_value(exp["d"]), obs["v"]))
            if not ok:
                s_ = sig(rules, lits, v["args"])
                if o.get("k") == "panic":
                    s_.append({"kind": "panic_site", "value": o.get("site")})
                ctx.violation(s_, "%s %s : the specification %s; the implementation %s" %
                              (macro_text(rules, lits), use_text(v["args"]),
                               "selects rule %d and yields %s" % (exp["rule"], rd(exp["d"])) if exp["k"] == "ok" else "matches no rule (syntax error)",
                               json.dumps(obs)[:300]), {"stage": "replay", "rules": rules, "args": v["args"]})
    ctx.nontrivial = {canon([v["rules"], v["args"]]) for v in vecs if v["res"]["k"] == "ok"}
    ctx.stage("replay", cases=len(vecs), rule_sets=len(glist), exhaustive=True)
    v0 = vecs[len(vecs) // 3]
    ctx.sample({"macro": macro_text(v0["rules"], lits), "use": use_text(v0["args"]), "expected": v0["res"]})
    # ---- validate: random larger rule sets, uses derived from their own patterns and single mutations of them
    rng = random.Random(ctx.seed)
    n = 600 if tier == "quick" else 6000
    rgroups = [gen_rule_set(rng) for _ in range(n)]
    results = run_rule_sets(ctx, rgroups, "validate")
    events = []
    for gi, ((rules, ls, uses), res) in enumerate(zip(rgroups, results)):
        if res.get("skipped"):
            continue
        rs = res["results"]
        if len(rs) < 2 or rs[1].get("k") != "none":
            ctx.violation(sig(rules, ls, []), "%s : the definition is not accepted: %s" % (macro_text(rules, ls), json.dumps(rs[1] if len(rs) > 1 else rs[-1])[:300]),
                          {"stage": "validate", "rules": rules, "lits": ls, "args": []})
            continue
        for k, a in enumerate(uses):
            o = rs[2 + k] if 2 + k < len(rs) else {"k": "abort" if res.get("crashed") else "notrun"}
            events.append(((gi, k), {"lits": ls, "rules": rules, "args": a, "obs": S.to_spec_outcome(o)}))
    shards = 8
    files = []
    for sh in range(shards):
        part = events[sh::shards]
        path = os.path.join(ctx.dir, "validate.trace%d.ndjson" % sh)
        with open(path, "w") as f:
            for _, e in part:
                f.write(json.dumps(e, separators=(",", ":")) + "\n")
        files.append((path, part))

    def one(sh):
        return run_tlc("MacroTrace.tla", "MacroTrace.cfg", ctx.dir, tag="validate.mt%d" % sh, workers=1, timeout=3000,
                       xss="512m", xmx="3g", env={"TRACE": files[sh][0]}, want_tags=("MISMATCH",))
    nb = 0
    with concurrent.futures.ThreadPoolExecutor(max_workers=shards) as ex:
        for sh, tr in enumerate(ex.map(one, range(shards))):
            if not files[sh][1]:
                continue
            done = [m for m in tr.msgs if m[0] == "DONE"]
            if tr.error or tr.violation or not done or done[0][1]["events"] != len(files[sh][1]):
                tail = "".join(open(tr.path, errors="replace").readlines()[-25:])
                raise ToolError("MacroTrace shard %d did not consume its trace: %s %s\n%s" % (sh, tr.error, tr.violation, tail))
            ctx.add_tlc(tr, "MacroTrace:%d" % sh)
            for m in tr.vecs:
                (gi, k), e = files[sh][1][m["event"] - 1]
                rules, ls, uses = rgroups[gi]
                ctx.violation(sig(rules, ls, uses[k]), "%s %s : the specification %s; the implementation %s" %
                              (macro_text(rules, ls), use_text(uses[k]), json.dumps(m["expected"])[:300], json.dumps(m["observed"])[:300]),
                              {"stage": "validate", "rules": rules, "lits": ls, "args": uses[k]})
                nb += 1
    ctx.count(evaluations=len(events), validated=len(events))
    for (gi, k), e in events:
        ctx.nontrivial.add(canon([e["rules"], e["args"]]))
    ctx.stage("validate", rule_sets=len(rgroups), uses=len(events), rejected=nb)
    ctx.assumptions += ["the expander's supported class: keyword spelled out, proper-list and vector patterns, one final ellipsis per (sub)list, ellipsis depth 1, one or more items per ellipsis, ellipsis sub-templates over ellipsis variables",
                        "templates are quoted data, so the value of (m args...) is the expansion"]
    return ctx.finish(rule="replay: every one-rule set over the pattern alphabet (variables a b, _, literal identifier, data 1 #t, sub-lists/vectors to depth 2, optional final ellipsis; 3 templates each) against every use of <= 3 elements, "
                           "and two-rule sets of flat patterns; validate: random rule sets (<= 6 rules, depth <= 4) with uses derived from their own patterns and single mutations, judged by MacroTrace.tla; non-trivial = distinct (rule set, use)")


# ---- random rule sets ------------------------------------------------------------------------
NAMES = ["v0", "v1", "v2", "v3", "v4"]


def gen_pattern(rng, depth, vars_, lits):
    """-> (pattern datum, instance generator info). Patterns inside the supported class."""
    k = rng.random()
    if depth <= 0 or k < 0.45:
        c = rng.random()
        if c < 0.45 and len(vars_) <= len(NAMES):
            v = NAMES[(vars_[0] + len(vars_) - 1) % len(NAMES)]; vars_.append(v)     # vars_[0] is the rule's numbering offset
            return S.vsym(v)
        if c < 0.55:
            return S.vsym("_")
        if c < 0.7:
            return S.vsym(rng.choice(lits))
        return rng.choice([S.vint(rng.randint(0, 3)), S.vbool(rng.random() < 0.5), S.vstr("s"), S.vchar("c")])
    n = rng.randint(0, 3)
    items = [gen_pattern(rng, depth - 1, vars_, lits) for _ in range(n)]
    if items and rng.random() < 0.4 and items[-1] != S.vsym("_") and "..." not in S.render_datum(items[-1]):
        items.append(S.vsym("..."))
    return S.vlit(items) if rng.random() < 0.2 else S.vlist(items)


def instance(rng, p, lits, depth_many=True):
    """a datum the pattern matches"""
    t = p["t"]
    if t == "sym":
        if p["x"] in lits or p["x"] == "_" and rng.random() < 0.0:
            return p
        if p["x"] in lits:
            return p
        return rng.choice([S.vint(rng.randint(0, 9)), S.vsym(rng.choice(["q", "r", lits[0]])), S.vlist([S.vint(1), S.vsym("w")]), S.vbool(True), S.vlit([S.vint(7)])])
    if t in ("pair", "nil", "vlit"):
        items = p["xs"] if t == "vlit" else elems(p)
        out = []
        i = 0
        while i < len(items):
            if i + 1 < len(items) and items[i + 1] == S.vsym("..."):
                for _ in range(rng.randint(1, 3)):
                    out.append(instance(rng, items[i], lits))
                i += 2
            else:
                out.append(instance(rng, items[i], lits)); i += 1
        return S.vlit(out) if t == "vlit" else S.vlist(out)
    return p


def elems(d):
    out = []
    while d["t"] == "pair":
        out.append(d["a"]); d = d["d"]
    return out


def pattern_vars(p, under=False, acc=None):
    acc = acc if acc is not None else {"one": [], "many": []}
    t = p["t"]
    if t == "sym":
        if p["x"].startswith("v"):
            acc["many" if under else "one"].append(p["x"])
    elif t in ("pair", "nil", "vlit"):
        items = p["xs"] if t == "vlit" else elems(p)
        for i, it in enumerate(items):
            u = under or (i + 1 < len(items) and items[i + 1] == S.vsym("..."))
            if it != S.vsym("..."):
                pattern_vars(it, u, acc)
    return acc


def gen_template(rng, pv, depth):
    k = rng.random()
    if depth <= 0 or k < 0.4:
        if pv["one"] and rng.random() < 0.6:
            return S.vsym(rng.choice(pv["one"]))
        if pv.get("free") and rng.random() < 0.5:
            return S.vsym(rng.choice(pv["free"]))      # a free identifier that another rule uses as a pattern variable
        return rng.choice([S.vsym("const"), S.vint(rng.randint(0, 5)), S.vbool(False)])
    items = []
    for _ in range(rng.randint(0, 4)):
        if pv["many"] and rng.random() < 0.4:
            v = S.vsym(rng.choice(pv["many"]))
            # (constants of a sub-template may be any identifiers - a literal of the macro included)
            tag = S.vsym(rng.choice(["tag", "lit", "else"]))
            sub = v if rng.random() < 0.5 else rng.choice([S.vlist([tag, v]), S.vlit([v, S.vint(0)]), S.vlist([v, v]), S.vlist([v, tag, S.vlist([tag])])])
            items += [sub, S.vsym("...")]
        else:
            items.append(gen_template(rng, pv, depth - 1))
    return S.vlit(items) if rng.random() < 0.2 else S.vlist(items)


def swap_literal(rng, d, lits):
    """one occurrence of a literal identifier replaced by the macro's other literal identifier"""
    import copy
    d = copy.deepcopy(d)
    occ = []
    def walk(x):
        if x["t"] == "sym" and x["x"] in lits:
            occ.append(x)
        elif x["t"] == "pair":
            walk(x["a"]); walk(x["d"])
        elif x["t"] == "vlit":
            for y in x["xs"]:
                walk(y)
    walk(d)
    if occ:
        o = rng.choice(occ)
        o["x"] = rng.choice([l for l in lits if l != o["x"]])
    return d


def mutate_datum(rng, d):
    import copy
    d = copy.deepcopy(d)
    items = elems(d) if d["t"] in ("pair", "nil") else None
    if items is None:
        return rng.choice([S.vint(99), S.vsym("other"), S.vlist([])])
    op = rng.choice(["drop", "dup", "replace", "nest"])
    if op == "drop" and items:
        del items[rng.randrange(len(items))]
    elif op == "dup" and items:
        i = rng.randrange(len(items)); items.insert(i, items[i])
    elif op == "replace" and items:
        i = rng.randrange(len(items)); items[i] = rng.choice([S.vint(99), S.vsym("other"), S.vlist([]), S.vlit([])])
    elif items:
        i = rng.randrange(len(items)); items[i] = mutate_datum(rng, items[i])
    else:
        items.append(S.vint(1))
    return S.vlist(items)


def gen_rule_set(rng):
    lits = ["lit", "else"][: rng.choice([1, 2, 2])]
    rules = []
    pats = []
    for _ in range(rng.randint(1, 6)):
        vars_ = [rng.randrange(len(NAMES))]
        n = rng.randint(0, 3)
        pat = [gen_pattern(rng, rng.randint(0, 3), vars_, lits) for _ in range(n)]
        if pat and rng.random() < 0.35 and pat[-1] != S.vsym("_") and "..." not in S.render_datum(pat[-1]):
            pat.append(S.vsym("..."))
        pats.append(pat)
    for pat in pats:
        pv = pattern_vars(S.vlist(pat))
        pv["free"] = [x for x in NAMES if x not in pv["one"] and x not in pv["many"]]
        rules.append({"pat": pat, "tmpl": gen_template(rng, pv, rng.randint(0, 3))})
    uses = []
    for _ in range(rng.randint(4, 10)):
        r = rng.choice(rules)
        inst = instance(rng, S.vlist(r["pat"]), lits)
        if len(lits) > 1 and rng.random() < 0.3:
            inst = swap_literal(rng, inst, lits)
        elif rng.random() < 0.45:
            inst = mutate_datum(rng, inst)
        uses.append(elems(inst))
    return rules, lits, uses


def replay(ctx, case):
    rules, args = case["rules"], case["args"]
    lits = case.get("lits", ["lit", "kw"])
    res = run_rule_sets(ctx, [(rules, lits, [args])], "replay1")[0]
    log(macro_text(rules, lits)); log(use_text(args)); log("implementation:", json.dumps(res["results"][1:])[:800])
    return 1
