# Scheme programs as JSON ASTs (the interchange schema of DESIGN.md, Appendix A), the renderer to
# source text, and the conversions between the harness's value projection and the specification's
# value records.  This is the trusted base on the driver side; it is kept free of semantics.
import json

# ---- values / data -------------------------------------------------------------------------
def vint(n): return {"t": "int", "v": n}
def vbool(b): return {"t": "bool", "b": bool(b)}
def vsym(x): return {"t": "sym", "x": x}
def vchar(c): return {"t": "char", "c": ord(c) if isinstance(c, str) else c}
def vstr(s): return {"t": "str", "cs": [ord(c) for c in s]}
def vrat(n, d): return {"t": "rat", "n": n, "d": d}
NIL = {"t": "nil"}
def cons(a, d): return {"t": "pair", "a": a, "d": d}
def vlist(xs, tl=None):
    r = tl if tl is not None else NIL
    for x in reversed(xs):
        r = cons(x, r)
    return r
def vlit(xs): return {"t": "vlit", "xs": list(xs)}     # vector literal inside quoted data


def to_spec_value(o):
    """harness projection -> observable form used by the specification (pairs as cons cells,
    vectors by content, procedures opaque)"""
    t = o["t"]
    if t == "list":
        return vlist([to_spec_value(x) for x in o["xs"]], to_spec_value(o["tl"]))
    if t == "vec":
        return {"t": "vec", "xs": [to_spec_value(x) for x in o["xs"]]}
    if t == "real":
        return {"t": "real", "s": o["s"], "e": o["e"], "m": o["m"]}
    if t in ("proc",):
        return {"t": "proc"}
    if t == "int":
        return vint(o["v"])
    if t == "rat":
        return vrat(o["n"], o["d"])
    if t == "bool":
        return vbool(o["v"])
    if t == "sym":
        return vsym(o["x"])
    if t == "char":
        return {"t": "char", "c": o["c"]}
    if t == "str":
        return {"t": "str", "cs": o["cs"]}
    if t == "nil":
        return NIL
    if t == "void":
        return {"t": "void"}
    return {"t": t}


def vec_ids(o):
    """alias structure of an observed value: vector ids in traversal order (same order as Machine!VecIds)"""
    t = o["t"]
    if t == "list":
        r = []
        for x in o["xs"]:
            r += vec_ids(x)
        return r + vec_ids(o["tl"])
    if t == "vec":
        r = [o["id"]]
        for x in o["xs"]:
            r += vec_ids(x)
        return r
    return []


def to_spec_outcome(o):
    k = o.get("k")
    if k == "value":
        return {"k": "value", "v": to_spec_value(o["v"])}
    if k == "none":
        return {"k": "none"}
    if k == "error":
        return {"k": "error", "kind": o["kind"]}
    if k == "panic":
        return {"k": "panic", "kind": "Panic@" + o.get("site", "?")}
    return {"k": k or "?", "kind": str(o.get("status", ""))}


# ---- expressions ---------------------------------------------------------------------------
def lit(v): return {"t": "lit", "v": v if isinstance(v, dict) else (vbool(v) if isinstance(v, bool) else vint(v))}
def var(x): return {"t": "var", "x": x}
def quote(d): return {"t": "quote", "d": d}
def app(f, *a): return {"t": "app", "f": f if isinstance(f, dict) else var(f), "as": list(a)}
def lam(ps, body, rest="", defs=()): return {"t": "lam", "ps": list(ps), "rest": rest, "defs": [{"x": x, "e": e} for x, e in defs], "body": list(body)}
def if_(c, a, b=None): return {"t": "if", "c": c, "a": a, "b": [] if b is None else [b]}
def set_(x, e): return {"t": "set", "x": x, "e": e}
def begin(*es): return {"t": "begin", "es": list(es)}
def let(bs, body, defs=()): return {"t": "let", "bs": [{"x": x, "e": e} for x, e in bs], "defs": [{"x": x, "e": e} for x, e in defs], "body": list(body)}
def letstar(bs, body, defs=()): return {"t": "letstar", "bs": [{"x": x, "e": e} for x, e in bs], "defs": [{"x": x, "e": e} for x, e in defs], "body": list(body)}
def clause(c, es, arrow=False): return {"c": c, "arrow": arrow, "es": list(es)}
def cond(cls, els=None): return {"t": "cond", "cls": list(cls), "els": [] if els is None else [list(els)]}
def cclause(ds, es, arrow=False): return {"ds": list(ds), "arrow": arrow, "es": list(es)}
def case(key, cls, els=None, els_arrow=False): return {"t": "case", "key": key, "cls": list(cls), "els": [] if els is None else [{"arrow": els_arrow, "es": list(els)}]}
def and_(*es): return {"t": "and", "es": list(es)}
def or_(*es): return {"t": "or", "es": list(es)}
def when(c, *es): return {"t": "when", "c": c, "es": list(es)}
def unless(c, *es): return {"t": "unless", "c": c, "es": list(es)}
def define(x, e): return {"t": "define", "x": x, "e": e}
def tick(label, e=None): return app("tick!", lit(label)) if e is None else app("tick!", lit(label), e)


# ---- rendering -----------------------------------------------------------------------------
def render_datum(d):
    t = d["t"]
    if t == "int": return str(d["v"])
    if t == "rat": return "%d/%d" % (d["n"], d["d"])
    if t == "bool": return "#t" if d["b"] else "#f"
    if t == "sym": return d["x"]
    if t == "char": return "#\\" + chr(d["c"])
    if t == "str": return '"' + "".join({'"': '\\"', "\\": "\\\\", "\n": "\\n"}.get(chr(c), chr(c)) for c in d["cs"]) + '"'
    if t == "nil": return "()"
    if t == "vlit": return "#(" + " ".join(render_datum(x) for x in d["xs"]) + ")"
    if t == "real": return d["txt"]
    if t == "pair":
        parts = []
        while d["t"] == "pair":
            parts.append(render_datum(d["a"])); d = d["d"]
        if d["t"] != "nil":
            parts += [".", render_datum(d)]
        return "(" + " ".join(parts) + ")"
    raise ValueError("cannot render datum " + json.dumps(d))


def self_evaluating(v):
    return v["t"] in ("int", "rat", "bool", "char", "str", "real")


def render_body(defs, body, use_sugar):
    out = []
    for d in defs:
        out.append(render_define(d["x"], d["e"], use_sugar))
    out += [render(e, use_sugar) for e in body]
    return " ".join(out)


def render_params(ps, rest):
    if rest and not ps:
        return rest
    return "(" + " ".join(ps) + ((" . " + rest) if rest else "") + ")"


def render_define(x, e, use_sugar=False):
    if use_sugar and e["t"] == "lam":
        head = "(" + x + "".join(" " + p for p in e["ps"]) + ((" . " + e["rest"]) if e["rest"] else "") + ")"
        return "(define %s %s)" % (head, render_body(e["defs"], e["body"], use_sugar))
    return "(define %s %s)" % (x, render(e, use_sugar))


def render(e, use_sugar=False):
    t = e["t"]
    r = lambda x: render(x, use_sugar)
    if t == "lit":
        return render_datum(e["v"]) if self_evaluating(e["v"]) else "'" + render_datum(e["v"])
    if t == "var": return e["x"]
    if t == "quote": return "'" + render_datum(e["d"])
    if t == "app": return "(" + " ".join([r(e["f"])] + [r(a) for a in e["as"]]) + ")"
    if t == "lam": return "(lambda %s %s)" % (render_params(e["ps"], e["rest"]), render_body(e["defs"], e["body"], use_sugar))
    if t == "if": return "(if %s %s%s)" % (r(e["c"]), r(e["a"]), "".join(" " + r(b) for b in e["b"]))
    if t == "set": return "(set! %s %s)" % (e["x"], r(e["e"]))
    if t == "begin": return "(begin " + " ".join(r(x) for x in e["es"]) + ")"
    if t in ("let", "letstar"):
        return "(%s (%s) %s)" % ("let" if t == "let" else "let*", " ".join("(%s %s)" % (b["x"], r(b["e"])) for b in e["bs"]),
                                 render_body(e["defs"], e["body"], use_sugar))
    if t == "cond":
        cl = []
        for c in e["cls"]:
            cl.append("(" + " ".join([r(c["c"])] + (["=>"] if c["arrow"] else []) + [r(x) for x in c["es"]]) + ")")
        for els in e["els"]:
            cl.append("(else " + " ".join(r(x) for x in els) + ")")
        return "(cond " + " ".join(cl) + ")"
    if t == "case":
        cl = []
        for c in e["cls"]:
            cl.append("((" + " ".join(render_datum(d) for d in c["ds"]) + ") " + " ".join((["=>"] if c["arrow"] else []) + [r(x) for x in c["es"]]) + ")")
        for els in e["els"]:
            cl.append("(else " + " ".join((["=>"] if els["arrow"] else []) + [r(x) for x in els["es"]]) + ")")
        return "(case %s %s)" % (r(e["key"]), " ".join(cl))
    if t in ("and", "or"): return "(" + " ".join([t] + [r(x) for x in e["es"]]) + ")"
    if t in ("when", "unless"): return "(" + " ".join([t, r(e["c"])] + [r(x) for x in e["es"]]) + ")"
    if t == "define": return render_define(e["x"], e["e"], use_sugar)
    if t == "rawtext": return e["text"]          # (C15 only: a form given as text)
    if t == "importfile": return "(import (%s))" % e["lib"]
    if t == "defsyntax": return "(define-syntax %s (syntax-rules () ((%s a) (list '%s))))" % (e["kw"], e["kw"], e["k"])
    if t == "macrouse": return "(cond (#t %s))" % r(e["arg"]) if e["kw"] == "cond" else "(%s %s)" % (e["kw"], r(e["arg"]))
    raise ValueError("cannot render " + t)


def program_job(jid, forms, use_sugar=False, texts=None, stack_probe=False):
    """one session: fresh interpreter with the standard library and the host procedures; one eval per form"""
    steps = [{"op": "new", "i": 0}]
    for k, f in enumerate(forms):
        steps.append({"op": "eval", "i": 0, "text": texts[k] if texts else render(f, use_sugar)})
    return {"id": jid, "kind": "session", "steps": steps}


def form_events(forms, result, anykind=False):
    """harness result of program_job -> trace events for MachineTrace (one per evaluated form)"""
    ev = [{"ev": "reset"}]
    rs = result["results"][1:]
    for k, f in enumerate(forms):
        if k >= len(rs):
            break
        o = rs[k]
        ev.append({"ev": "form", "ast": f, "obs": to_spec_outcome(o), "anykind": anykind,
                   "ticks": [to_spec_value(t) for t in o.get("ticks", [])],
                   "ids": vec_ids(o["v"]) if o.get("k") == "value" else []})
        if o.get("k") in ("panic", "abort", "timeout"):
            break
    return ev


# ---- comparison used by the replay direction (mirror of Data!Match / MachineTrace!OutcomeOK) ----
def _num(v):
    from fractions import Fraction
    if v["t"] == "int":
        return Fraction(v["v"])
    if v["d"] == 0:
        return None
    return Fraction(v["n"], v["d"])


def match(s, o):
    """s: value printed by TLC (observable form); o: observed value converted by to_spec_value"""
    if s["t"] == "unspec":
        return True
    if s["t"] in ("int", "rat"):
        return o["t"] in ("int", "rat") and _num(o) is not None and _num(s) == _num(o)
    if s["t"] != o["t"]:
        return False
    if s["t"] == "pair":
        return match(s["a"], o["a"]) and match(s["d"], o["d"])
    if s["t"] == "vec":
        return len(s["xs"]) == len(o["xs"]) and all(match(a, b) for a, b in zip(s["xs"], o["xs"]))
    if s["t"] == "real":
        return (s["s"], s["e"], s["m"]) == (o["s"], o["e"], o["m"])
    return s == o


def kind_ok(spec, obs):
    return spec == obs or spec == "AnyError" or (spec == "WrongType" and obs == "NonProcedure") or ("|" in spec and obs in spec.split("|"))


def outcome_ok(r, o):
    if r["k"] == "none":
        return o["k"] == "none"
    if r["k"] == "value":
        return o["k"] == "value" and match(r["v"], o["v"])
    if r["k"] == "error":
        return o["k"] == "error" and kind_ok(r["kind"], o["kind"])
    return False


def ticks_ok(out, ticks):
    return len(out) == len(ticks) and all(match(a, b) for a, b in zip(out, ticks))


def compare_program(expected_results, result):
    """expected_results: [{r, out}] printed by TLC; result: harness result of program_job.
    -> None if everything agrees, else (form index, why, expected, observed)"""
    rs = result["results"][1:]
    for k, e in enumerate(expected_results):
        if k >= len(rs):
            return (k, "not evaluated (earlier panic)", e, None)
        o = rs[k]
        obs = to_spec_outcome(o)
        if not outcome_ok(e["r"], obs):
            return (k, "outcome", e, {"obs": obs, "ticks": o.get("ticks")})
        if not ticks_ok(e["out"], [to_spec_value(t) for t in o.get("ticks", [])]):
            return (k, "ticks", e, {"obs": obs, "ticks": [to_spec_value(t) for t in o.get("ticks", [])]})
    return None


def wf(x):
    """well-formedness of an AST w.r.t. what Machine.tla and the renderer accept (used by the shrinker)"""
    try:
        if isinstance(x, list):
            return all(wf(y) for y in x)
        if not isinstance(x, dict):
            return True
        t = x.get("t")
        if t in ("begin", "when", "unless") and len(x["es"]) < 1:
            return False
        if t in ("lam", "let", "letstar") and len(x["body"]) < 1:
            return False
        if t in ("let",) and len({b["x"] for b in x["bs"]}) != len(x["bs"]):
            return False
        if t == "lam" and len(set(x["ps"] + ([x["rest"]] if x["rest"] else []))) != len(x["ps"]) + (1 if x["rest"] else 0):
            return False
        if t == "cond":
            for c in x["cls"]:
                if c["arrow"] and len(c["es"]) != 1:
                    return False
            if any(len(e) < 1 for e in x["els"]):
                return False
            if not x["cls"] and not x["els"]:
                return False
        if t == "case":
            for c in x["cls"]:
                if (c["arrow"] and len(c["es"]) != 1) or len(c["es"]) < 1 or len(c["ds"]) < 1:
                    return False
            for e in x["els"]:
                if (e["arrow"] and len(e["es"]) != 1) or len(e["es"]) < 1:
                    return False
            if not x["cls"] and not x["els"]:
                return False
        if t == "if" and len(x["b"]) > 1:
            return False
        if t == "app" and x["f"].get("t") == "var" and x["f"]["x"] == "tick!" and (len(x["as"]) not in (1, 2) or x["as"][0].get("t") != "lit"):
            return False
        if t == "define" and x["e"].get("t") == "define":
            return False
        return all(wf(v) for k, v in x.items() if isinstance(v, (dict, list)))
    except Exception:
        return False


def render_datum_loose(d):
    """like render_datum but also for observable-form values (vec by content, unspec, proc)"""
    t = d.get("t")
    if t == "vec":
        return "#(" + " ".join(render_datum_loose(x) for x in d["xs"]) + ")"
    if t in ("unspec", "void", "proc"):
        return "<" + t + ">"
    if t == "pair":
        parts = []
        while d.get("t") == "pair":
            parts.append(render_datum_loose(d["a"])); d = d["d"]
        if d.get("t") != "nil":
            parts += [".", render_datum_loose(d)]
        return "(" + " ".join(parts) + ")"
    try:
        return render_datum(d)
    except Exception:
        return json.dumps(d)
