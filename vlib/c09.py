# C09 Exact arithmetic is exact, and inexactness is contagious
from .common import *
from . import numbers as N

UNARY = ["abs", "floor", "ceiling", "-", "/"]
BINARY = ["+", "-", "*", "/", "floor-quotient", "floor-remainder"]
TERNARY = ["+", "-", "*", "/"]


def run(ctx):
    return N.run_property(ctx, "C09", UNARY, BINARY, TERNARY,
                          "every unary and binary arithmetic operation over the 75-number grid of MCNumbers.tla (literals and values produced by arithmetic), sampled 3-operand folds, "
                          "and random operand tuples; each recorded application is judged by NumbersX!Verdict in NumbersTrace.tla; non-trivial = distinct case")


def replay(ctx, case):
    c = case["case"]
    bad, outs = N.validate_cases(ctx, [c], "replay1", shards=1)
    log("case:", c["text"], "operands:", json.dumps(c["args"]))
    log("implementation:", json.dumps(outs[0]))
    N.report(ctx, "C09", bad, "replay")
    return 1 if ctx.nviol else 0
