# C19 Interpreter instances are isolated from one another
import random, os, json, shutil
from .common import *
from . import scheme as S, machine as M, gen as G


def sigs_fn(forms, tag):
    return [{"kind": "vector", "value": " ".join(S.render(f) for f in forms)}]


LIBDIRS = {}


def library_dirs(ctx):
    """each instance has its own program directory: (conf) differs between them, (onlya) exists only in A's (MCInterp!Files)"""
    if not LIBDIRS:
        for who, files in (("a", {"conf": ("answer", 100), "onlya": ("only-a", 1)}), ("b", {"conf": ("answer", 200)})):
            d = os.path.join(ctx.dir, "dir-" + who)
            shutil.rmtree(d, ignore_errors=True); os.makedirs(d)
            for lib, (name, val) in files.items():
                with open(os.path.join(d, lib + ".sld"), "w") as f:
                    f.write("(define-library (%s) (import (scheme base)) (export %s) (begin (define-syntax m (syntax-rules () ((m a) (list 'lib-%s)))) (define %s (car (cons %d (m 0))))))\n"
                            % (lib, name, who, name, val))
            with open(os.path.join(d, "shared.sld"), "w") as f:      # the same text in both directories
                f.write("(define-library (shared) (import (scheme base)) (export next!) (begin (define n 0) (define (next!) (set! n (+ n 1)) n)))\n")
            with open(os.path.join(d, "prog.scm"), "w") as f:
                f.write("(import (scheme base))\n(define program-of-%s 1)\n" % who)
            LIBDIRS[who] = d
    return LIBDIRS


def interleaved_job(jid, pa, pb, sched, fresh=True):
    """A = interpreter 0, B = interpreter 1; a new instance is created (and used once) at every point"""
    steps = [{"op": "new", "i": 0}, {"op": "new", "i": 1}]
    if LIBDIRS:
        # an instance runs a (trivial) program FILE from A's directory before anything else: where one instance's program lives
        # says nothing about where an instance without a program directory finds libraries (probed by the fresh instances)
        # (a third instance: running a file evaluates forms, after which Ruschm accepts no import declaration)
        steps = [{"op": "new", "i": 90}, {"op": "evalfile", "i": 90, "path": os.path.join(LIBDIRS["a"], "prog.scm")},
                 {"op": "new", "i": 0}, {"op": "progdir", "i": 0, "path": LIBDIRS["a"]},
                 {"op": "new", "i": 1}, {"op": "progdir", "i": 1, "path": LIBDIRS["b"]}]
    ia = ib = 0
    k = 2
    pos = {"a": [], "b": [], "fresh": []}
    for who in sched:
        if who == 1:
            pos["a"].append(len(steps)); steps.append({"op": "eval", "i": 0, "text": S.render(pa[ia])}); ia += 1
        else:
            pos["b"].append(len(steps)); steps.append({"op": "eval", "i": 1, "text": S.render(pb[ib])}); ib += 1
        if fresh:
            steps.append({"op": "new", "i": k})
            if LIBDIRS:
                pos.setdefault("freshimport", []).append(len(steps)); steps.append({"op": "eval", "i": k, "text": "(import (onlya))"})
            # what other instances defined (x, or the variable of the program file another instance ran) is unbound here
            pos.setdefault("freshunbound", []).append(len(steps)); steps.append({"op": "eval", "i": k, "text": "program-of-a" if LIBDIRS else "x"})
            pos["fresh"].append(len(steps)); steps.append({"op": "eval", "i": k, "text": "(cond ((car '(#f)) 1) (else (tick! 3)))"})
            steps.append({"op": "drop", "i": k})
            k += 1
    return {"id": jid, "kind": "session", "steps": steps, "own_thread": True}, pos


def run(ctx):
    tier = ctx.tier
    build_harness()
    r = run_tlc("MCInterp.tla", "MCInterp_shared.cfg", ctx.dir, workers=8, timeout=1200)
    if r.violation not in ("Isolated", "IsolatedPrefix"):
        raise ToolError("sensitivity: the shared-syntax-table model was not rejected")
    ctx.stage("model-sensitivity", variant="SharedSyntax (one syntax table per thread, as the implementation was found)", tlc_verdict="%s violated (as required)" % r.violation)
    r = run_tlc("MCInterp.tla", "MCInterp_sharedfiles.cfg", ctx.dir, workers=8, timeout=1200)
    if r.violation not in ("Isolated", "IsolatedPrefix"):
        raise ToolError("sensitivity: the model with a per-thread cache of library files was not rejected")
    ctx.stage("model-sensitivity", variant="SharedFiles (library files cached per thread by library name)", tlc_verdict="%s violated (as required)" % r.violation)
    library_dirs(ctx)
    vecs = []
    # (the files family with programs of three forms has 1.8 million interleavings: like the syntax family it is sampled by
    # random walks in the thorough tier; programs of two forms are exhaustive in both tiers)
    for c in ("MCInterp_quick.cfg", "MCInterp_files.cfg"):
        r = run_tlc("MCInterp.tla", c, ctx.dir, workers=12, timeout=3000, xmx="12g")
        require_clean(r, c)
        ctx.add_tlc(r, c + " (non-interference on every interleaving)")
        vecs += r.vecs
    if tier != "quick":
        # programs of three forms: about four million interleavings - sampled by random walks of the model
        seen = {canon(v) for v in vecs}
        for k in range(8):
            c = "MCInterp_thorough.cfg" if k < 4 else "MCInterp_files_thorough.cfg"
            r = run_tlc("MCInterp.tla", c, ctx.dir, tag=c[:-4] + "_sim%d" % k, workers=1, timeout=3000, xmx="12g",
                        simulate="num=8000", depth=8, seed=ctx.seed * 10 + k)
            require_clean(r, c + " simulate")
            ctx.add_tlc(r, c + " (random walks)")
            for v in r.vecs:
                if canon(v) not in seen:
                    seen.add(canon(v)); vecs.append(v)
    vecs = sorted(vecs, key=canon)
    jobs, poss = [], []
    for i, v in enumerate(vecs):
        j, pos = interleaved_job(i, v["pa"], v["pb"], v["sched"])
        jobs.append(j); poss.append(pos)
    results = run_jobs(jobs, ctx.dir, tag="replay", timeout=3000)
    for v, pos, res in zip(vecs, poss, results):
        if res.get("skipped"):
            continue
        ctx.count(evaluations=len(v["sched"]), validated=1)
        ctx.nontrivial_key([v["pa"], v["pb"], v["sched"]])
        rs = res["results"]
        text = "A: %s | B: %s | schedule %s" % (" ".join(S.render(f) for f in v["pa"]), " ".join(S.render(f) for f in v["pb"]), v["sched"])
        why = None
        if res.get("crashed") or len(rs) < len(jobs[0]["steps"]) and any(x.get("k") == "panic" for x in rs):
            why = "panic / process died: %s" % json.dumps(rs[-1])[:200]
        else:
            for who, prog, exp, idx in (("A", v["pa"], v["ra"], pos["a"]), ("B", v["pb"], v["rb"], pos["b"])):
                for k, (e, at) in enumerate(zip(exp, idx)):
                    if at >= len(rs) or not S.outcome_ok(e, S.to_spec_outcome(rs[at])):
                        why = "instance %s form %d (%s): alone it yields %s, in this interleaving the implementation yields %s" % (
                            who, k, S.render(prog[k]), json.dumps(e), json.dumps(S.to_spec_outcome(rs[at])) if at < len(rs) else "nothing")
                        break
                if why:
                    break
            if not why:
                for at in pos.get("freshimport", []):
                    o = rs[at] if at < len(rs) else {"k": "missing"}
                    if not (o.get("k") == "error" and o.get("kind") == "NotFound"):
                        why = "a new instance without a program directory finds (or fails differently on) a library that exists only next to another instance's program: (import (onlya)) -> %s" % json.dumps(S.to_spec_outcome(o))[:200]
                        break
            if not why:
                for at in pos.get("freshunbound", []):
                    o = rs[at] if at < len(rs) else {"k": "missing"}
                    if not (o.get("k") == "error" and o.get("kind") == "Unbound"):
                        why = "a new instance sees a variable that only another instance defined: %s" % json.dumps(S.to_spec_outcome(o))[:200]
                        break
            if not why:
                for at in pos["fresh"]:
                    o = rs[at] if at < len(rs) else {"k": "missing"}
                    if not (o.get("k") == "value" and o["v"] == {"t": "int", "v": 3}):
                        why = "a new instance created during the interleaving does not work: %s" % json.dumps(o)[:200]
                        break
        if why:
            ctx.violation([{"kind": "vector", "value": text}], text + " : " + why, {"stage": "replay", "vec": v})
    ctx.stage("replay", interleavings=len(vecs), exhaustive=True)
    ctx.sample({"interleaving": "A: %s | B: %s | schedule %s" % (" ".join(S.render(f) for f in vecs[len(vecs) // 2]["pa"]),
                                                                 " ".join(S.render(f) for f in vecs[len(vecs) // 2]["pb"]), vecs[len(vecs) // 2]["sched"])})
    # ---- validate: random program pairs (colliding names by construction of the generators) under random interleavings;
    # each instance's recorded results are validated against the reference machine running that program ALONE
    rng = random.Random(ctx.seed)
    n = 100 if tier == "quick" else 1500
    pairs, jobs, poss = [], [], []
    for i in range(n):
        def prog():
            g = rng.random()
            p = G.core_program(rng) if g < 0.35 else (G.derived_program(rng) if g < 0.7 else G.store_history(rng, rng.randint(8, 20)))
            if rng.random() < 0.4:
                k = rng.randrange(len(p) + 1)
                # (keywords the generated programs do not use otherwise: redefinition of cond is covered by the exhaustive family)
                p = p[:k] + [{"t": "defsyntax", "kw": rng.choice(["mac1", "mac2"]), "k": "k%d" % rng.randint(1, 3)}] + p[k:]
            if rng.random() < 0.4:
                p = p + [{"t": "macrouse", "kw": rng.choice(["mac1", "mac2"]), "arg": S.lit(rng.randint(0, 9))}]
            return p
        pa, pb = prog(), prog()
        sched = [1] * len(pa) + [2] * len(pb)
        rng.shuffle(sched)
        j, pos = interleaved_job(i, pa, pb, sched, fresh=(i % 3 == 0))
        pairs.append((pa, pb, sched)); jobs.append(j); poss.append(pos)
    # failure storms: instance A does nothing but fail, in every way a form can fail (reading, expanding a macro, running),
    # dozens of times; instance B runs an ordinary program in between and must not notice, and new instances can be made
    STORM = ["(if)", "(let ((y 2)) (begin (if)))", "(cond)", "(car 5)", "(let ((x 1)) (cond ((car x) 1)))", "(undefined-thing 1)", "(lambda)", "(let ((y)) y)",
             "(import (no such library))", "(define-syntax broken (syntax-rules))", "(broken 1)", "(when)", "(case)", "(and (or (when #t (vector-ref (vector) 1))))",
             "(define-syntax loop-forever (syntax-rules () ((loop-forever) (undefined-helper (loop-forever-2)))))", "(loop-forever)", ")", "(quote)", "(let* ((a 1) (b (car a))) b)",
             "(set! never-defined 1)", "((lambda (x) x))", "(1 2 3)", "(vector-set! #(1) 0 2)", "(/ 1 0)"]
    for i in range(n, n + (6 if tier == "quick" else 40)):
        pb = G.derived_program(rng) if rng.random() < 0.6 else G.core_program(rng)
        # (most failures happen while a derived form or user macro is being expanded or while its expansion runs)
        heavy = [t for t in STORM if any(k in t for k in ("(let", "(cond", "(when", "(case", "(and", "broken", "loop-forever"))]
        pa = [{"t": "rawtext", "text": rng.choice(heavy if rng.random() < 0.7 else STORM)} for _ in range(rng.randint(150, 250))]
        sched = [1] * len(pa) + [2] * len(pb)
        rng.shuffle(sched)
        j, pos = interleaved_job(i, pa, pb, sched, fresh=True)
        pairs.append(([], pb, sched)); jobs.append(j); poss.append(dict(pos, a=[]))
    results = run_jobs(jobs, ctx.dir, tag="validate", timeout=3000, job_timeout_ms=15000)
    progs, fake = [], []
    for (pa, pb, sched), pos, res in zip(pairs, poss, results):
        if res.get("skipped") or res.get("timedout"):
            continue
        rs = res["results"]
        for prog, idx in ((pa, pos["a"]), (pb, pos["b"])):
            rr = [{"k": "none"}] + [rs[at] if at < len(rs) else {"k": "abort"} for at in idx]
            progs.append(prog); fake.append({"results": rr})
        for at in pos["fresh"]:
            o = rs[at] if at < len(rs) else {"k": "missing"}
            if not (o.get("k") == "value" and o["v"] == {"t": "int", "v": 3}):
                text = "B: %s | schedule %s" % (" ".join(S.render(f) for f in pb)[:300], sched[:40])
                ctx.violation([{"kind": "input", "value": text}], "a new instance created while another instance keeps failing does not work: %s (%s)" % (json.dumps(o)[:200], text),
                              {"stage": "validate", "pb": pb, "sched": sched})
                break
    mism = validate_recorded(ctx, progs, fake, "validate")
    M.report_mismatches(ctx, progs, mism, sigs_fn)
    for p in progs:
        ctx.nontrivial_key(p)
    ctx.stage("validate", program_pairs=len(pairs), instance_traces=len(progs), mismatches=len(mism))
    ctx.assumptions += ["both instances live on one thread (as the property says); a user-defined macro is modelled abstractly: (kw ARG) rewrites to (list 'k) for the definition k of that instance"]
    return ctx.finish(rule="replay: every interleaving of two programs of <= 2 forms (define, set!, read, define-syntax of m and of cond, uses of both, a failing form) over two instances, "
                           "in two families (syntax tables; library files, incl. a stateful library with the same text in both directories), with fresh instances probing at every point; thorough adds random walks of the model over programs of 3 forms in both families; validate: random program pairs from the C01/C05/C03 generators with macro definitions under random interleavings, "
                           "each instance's results validated by MachineTrace.tla against the machine running that program alone; non-trivial = distinct interleaving / program")


def validate_recorded(ctx, programs, results, tag, shards=8, maxsteps=40000):
    """like machine.validate_programs, for executions that were recorded elsewhere"""
    import concurrent.futures
    cfg = os.path.join(SPEC, "MachineTrace_%d.cfg" % maxsteps)
    if not os.path.exists(cfg):
        M.write_cfg(cfg, maxsteps)
    n = len(programs)
    files, index = [], []
    for s in range(shards):
        path = os.path.join(ctx.dir, "%s.trace%d.ndjson" % (tag, s))
        idx = []
        with open(path, "w") as f:
            for i in range(s, n, shards):
                for k, e in enumerate(S.form_events(programs[i], results[i])):
                    f.write(json.dumps(e, separators=(",", ":")) + "\n"); idx.append((i, k - 1))
        files.append(path); index.append(idx)

    def one(s):
        return run_tlc("MachineTrace.tla", os.path.basename(cfg), ctx.dir, tag="%s.mt%d" % (tag, s), workers=1, timeout=3000,
                       xss="1g", xmx="3g", deque=True, env={"TRACE": files[s]}, want_tags=("MISMATCH",))
    mism = []
    with concurrent.futures.ThreadPoolExecutor(max_workers=shards) as ex:
        for s, tr in enumerate(ex.map(one, range(shards))):
            done = [m for m in tr.msgs if m[0] == "DONE"]
            if tr.error or tr.violation or not done or done[0][1]["events"] != len(index[s]):
                tail = "".join(open(tr.path, errors="replace").readlines()[-30:])
                raise ToolError("MachineTrace shard %d did not consume its trace (%s %s)\n%s" % (s, tr.error, tr.violation, tail))
            ctx.add_tlc(tr, "MachineTrace:%s:%d" % (tag, s))
            for m in tr.vecs:
                i, k = index[s][m["event"] - 1]
                m["program"] = i; m["form"] = k
                mism.append(m)
    ctx.count(evaluations=sum(len(p) for p in programs), validated=n)
    return mism


def replay(ctx, case):
    v = case.get("vec")
    if v:
        j, pos = interleaved_job(0, v["pa"], v["pb"], v["sched"])
        res = run_jobs([j], ctx.dir, tag="replay1")[0]
        log("A:", [S.render(f) for f in v["pa"]], "B:", [S.render(f) for f in v["pb"]], "schedule:", v["sched"])
        log("expected A:", json.dumps(v["ra"]), "B:", json.dumps(v["rb"]))
        log("implementation:", json.dumps([res["results"][k] for k in pos["a"] + pos["b"] if k < len(res["results"])])[:1500])
        return 1
    return M.generic_replay(ctx, case, sigs_fn)
