# impl -> spec binding for every property decided on the reference evaluator (Machine.tla):
# run programs on the real interpreter, record one event per top-level form, let TLC validate
# the recording against MachineTrace.tla.
import os, json, concurrent.futures
from .common import *
from . import scheme as S


def write_cfg(path, maxsteps=20000, gc=False):
    with open(path, "w") as f:
        f.write("CONSTANTS\n  GC = %s\n  MaxSteps = %d\nSPECIFICATION TSpec\nINVARIANT TDone\nCHECK_DEADLOCK FALSE\n" %
                ("TRUE" if gc else "FALSE", maxsteps))


def validate_programs(ctx, programs, tag, use_sugar=None, shards=None, maxsteps=20000, timeout=3000, texts=None,
                      stack_mb=64):
    """programs: list of lists of forms (JSON ASTs). Returns list of mismatch dicts
    {program, form, why, expected, observed, ...}; raises ToolError if TLC did not consume everything."""
    n = len(programs)
    jobs = [S.program_job(i, p, use_sugar=(use_sugar[i] if use_sugar else False), texts=(texts[i] if texts else None))
            for i, p in enumerate(programs)]
    results = run_jobs(jobs, ctx.dir, tag=tag, timeout=timeout, stack_mb=stack_mb)
    shards = shards or min(8, max(1, n // 40))
    cfg = os.path.join(SPEC, "MachineTrace_%d.cfg" % maxsteps)
    if not os.path.exists(cfg):
        write_cfg(cfg, maxsteps)
    files, index = [], []
    for s in range(shards):
        path = os.path.join(ctx.dir, "%s.trace%d.ndjson" % (tag, s))
        idx = []
        with open(path, "w") as f:
            for i in range(s, n, shards):
                if results[i].get("skipped"):
                    continue
                evs = S.form_events(programs[i], results[i])
                for k, e in enumerate(evs):
                    f.write(json.dumps(e, separators=(",", ":")) + "\n")
                    idx.append((i, k - 1))
        files.append(path); index.append(idx)

    def one(s):
        return run_tlc("MachineTrace.tla", os.path.basename(cfg), ctx.dir, tag="%s.mt%d" % (tag, s), workers=1,
                       timeout=timeout, xss="1g", xmx="3g", deque=True, env={"TRACE": files[s]}, want_tags=("MISMATCH",))
    mism = []
    with concurrent.futures.ThreadPoolExecutor(max_workers=min(shards, 8)) as ex:
        for s, tr in enumerate(ex.map(one, range(shards))):
            done = [m for m in tr.msgs if m[0] == "DONE"]
            if tr.error or tr.violation or not done or done[0][1]["events"] != len(index[s]):
                tail = "".join(open(tr.path, errors="replace").readlines()[-30:])
                raise ToolError("MachineTrace shard %d did not consume its trace (error=%s violation=%s)\n%s" % (s, tr.error, tr.violation, tail))
            ctx.add_tlc(tr, "MachineTrace:%s:%d" % (tag, s))
            for m in tr.vecs:
                i, k = index[s][m["event"] - 1]
                m["program"] = i; m["form"] = k
                mism.append(m)
    ctx.count(evaluations=sum(len(p) for p in programs), validated=n)
    return mism, results
