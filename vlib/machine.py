# impl -> spec binding for every property decided on the reference evaluator (Machine.tla):
# run programs on the real interpreter, record one event per top-level form, let TLC validate
# the recording against MachineTrace.tla.
import os, json, concurrent.futures
from .common import *
from . import scheme as S


def write_cfg(path, maxsteps=20000, gc=False):
    with open(path, "w") as f:
        f.write("CONSTANTS\n  GC = %s\n  Broken = \"none\"\n  MaxSteps = %d\nSPECIFICATION TSpec\nINVARIANT TDone\nCHECK_DEADLOCK FALSE\n" %
                ("TRUE" if gc else "FALSE", maxsteps))


def validate_programs(ctx, programs, tag, use_sugar=None, shards=None, maxsteps=20000, timeout=3000, texts=None,
                      stack_mb=64, anykind=False):
    """programs: list of lists of forms (JSON ASTs). Returns list of mismatch dicts
    {program, form, why, expected, observed, ...}; raises ToolError if TLC did not consume everything."""
    n = len(programs)
    jobs = [S.program_job(i, p, use_sugar=(use_sugar[i] if use_sugar else False), texts=(texts[i] if texts else None))
            for i, p in enumerate(programs)]
    results = run_jobs(jobs, ctx.dir, tag=tag, timeout=timeout, stack_mb=stack_mb)
    shards = shards or min(8, max(1, n // 40))
    cfg = os.path.join(SPEC, "MachineTrace_%d.cfg" % maxsteps)
    if not os.path.exists(cfg):
        write_cfg(cfg, maxsteps)
    files, index = [], []
    for s in range(shards):
        path = os.path.join(ctx.dir, "%s.trace%d.ndjson" % (tag, s))
        idx = []
        with open(path, "w") as f:
            for i in range(s, n, shards):
                if results[i].get("skipped"):
                    continue
                evs = S.form_events(programs[i], results[i], anykind=anykind)
                for k, e in enumerate(evs):
                    f.write(json.dumps(e, separators=(",", ":")) + "\n")
                    idx.append((i, k - 1))
        files.append(path); index.append(idx)

    def one(s):
        return run_tlc("MachineTrace.tla", os.path.basename(cfg), ctx.dir, tag="%s.mt%d" % (tag, s), workers=1,
                       timeout=timeout, xss="1g", xmx="3g", deque=True, env={"TRACE": files[s]}, want_tags=("MISMATCH",))
    mism = []
    with concurrent.futures.ThreadPoolExecutor(max_workers=min(shards, 8)) as ex:
        for s, tr in enumerate(ex.map(one, range(shards))):
            done = [m for m in tr.msgs if m[0] == "DONE"]
            if tr.error or tr.violation or not done or done[0][1]["events"] != len(index[s]):
                tail = "".join(open(tr.path, errors="replace").readlines()[-30:])
                raise ToolError("MachineTrace shard %d did not consume its trace (error=%s violation=%s)\n%s" % (s, tr.error, tr.violation, tail))
            ctx.add_tlc(tr, "MachineTrace:%s:%d" % (tag, s))
            for m in tr.vecs:
                i, k = index[s][m["event"] - 1]
                m["program"] = i; m["form"] = k
                mism.append(m)
    ctx.count(evaluations=sum(len(p) for p in programs), validated=n)
    return mism, results


def replay_vectors(ctx, vecs, sigs_fn, tag="replay", sugar_variants=(False,), stack_mb=64):
    """spec -> impl: every TLC-printed program on the real interpreter, compared per form"""
    nbad = 0
    for sv in sugar_variants:
        jobs = [S.program_job(i, v["forms"], use_sugar=sv) for i, v in enumerate(vecs)]
        results = run_jobs(jobs, ctx.dir, tag="%s%s" % (tag, "-sugar" if sv else ""), timeout=2400, stack_mb=stack_mb)
        for v, res in zip(vecs, results):
            if res.get("skipped"):
                ctx.cov["skipped_after_crashes"] = ctx.cov.get("skipped_after_crashes", 0) + 1
                continue
            ctx.count(evaluations=len(v["forms"]), validated=1)
            text = " ".join(S.render(f, sv) for f in v["forms"])
            if res.get("crashed"):
                ctx.violation(sigs_fn(v["forms"], v.get("tag")) , "%s : the process died (%s)" % (text, res.get("status")),
                              {"stage": "replay", "forms": v["forms"], "expected": v["results"], "sugar": sv})
                nbad += 1
                continue
            d = S.compare_program(v["results"], res)
            if d:
                k, why, e, o = d
                sigs = sigs_fn(v["forms"], v.get("tag"))
                rs = res["results"][1:]
                if k < len(rs) and rs[k].get("k") == "panic":
                    sigs = sigs + [{"kind": "panic_site", "value": rs[k].get("site", "?")}]
                ctx.violation(sigs, "%s : form %d (%s) %s: specification %s ticks %s; implementation %s" %
                              (text, k, S.render(v["forms"][k], sv), why, json.dumps(e["r"]), json.dumps(e["out"]), json.dumps(o)[:600]),
                              {"stage": "replay", "forms": v["forms"], "expected": v["results"], "sugar": sv})
                nbad += 1
    return nbad


def report_mismatches(ctx, progs, mism, sigs_fn, results=None):
    for m in mism:
        forms = progs[m["program"]][: m["form"] + 1]
        sigs = sigs_fn(forms, None)
        obs = m.get("observed", {})
        if isinstance(obs, dict) and str(obs.get("kind", "")).startswith("Panic@"):
            sigs = sigs + [{"kind": "panic_site", "value": obs["kind"][6:]}]
        ctx.violation(sigs, "%s : form %d %s: specification %s ticks %s; implementation %s ticks %s" %
                      (" ".join(S.render(f) for f in forms), m["form"], m["why"], json.dumps(m["expected"]),
                       json.dumps(m["expectedTicks"]), json.dumps(m["observed"]), json.dumps(m["observedTicks"])),
                      {"stage": "validate", "forms": forms})


def generic_replay(ctx, case, sigs_fn):
    forms = case["forms"]
    log("program:", " ".join(S.render(f, case.get("sugar", False)) for f in forms))
    if case.get("expected"):
        res = run_jobs([S.program_job(0, forms, use_sugar=case.get("sugar", False))], ctx.dir, tag="replay1")[0]
        d = S.compare_program(case["expected"], res)
        log("implementation:", json.dumps(res["results"][1:])[:2000])
        log("specification:", json.dumps(case["expected"])[:2000])
        if d or res.get("crashed"):
            ctx.violation(sigs_fn(forms, None), "replayed: differs", case)
    else:
        mism, results = validate_programs(ctx, [forms], "replay1", shards=1)
        log("implementation:", json.dumps(results[0]["results"][1:])[:2000])
        for m in mism:
            log("specification:", json.dumps(m["expected"]), json.dumps(m["expectedTicks"]))
            ctx.violation(sigs_fn(forms, None), "replayed: differs at form %d (%s)" % (m["form"], m["why"]), case)
    return 1 if ctx.nviol else 0
