# C02 Tail calls run in bounded space
import random, copy
from .common import *
from . import scheme as S, machine as M, gen as G

SP_SLACK_SMALL = 1024        # same site, equal abstract continuation: stack addresses within 1 KiB
LIVE_SLACK_SMALL = 4096
SP_SPREAD_LARGE = 16 * 1024  # large N: max - min over the sampled iterations
LIVE_SPREAD_LARGE = 64 * 1024


def classes(forms):
    out = []
    txt = " ".join(S.render(f) for f in forms)
    if "(apply " in txt:
        out.append("loop-call-through-apply")
    return out


def sigs_fn(forms, tag):
    return [{"kind": "vector", "value": " ".join(S.render(f) for f in forms)}] + \
           [{"kind": "input_class", "value": c} for c in classes(forms)]


def split_out(out):
    probes = [o for o in out if isinstance(o, dict) and o.get("t") == "probe"]
    ticks = [o for o in out if not (isinstance(o, dict) and o.get("t") == "probe")]
    return probes, ticks


def rspace_small(spec_probes, obs_probes):
    """R-space: two observation points of one run at the same probe site with equal abstract
    continuation depth must have (nearly) equal native stack address and live heap."""
    if len(spec_probes) != len(obs_probes):
        return "number of probe! calls: specification %d, implementation %d" % (len(spec_probes), len(obs_probes))
    groups = {}
    for sp, ob in zip(spec_probes, obs_probes):
        if sp["site"].get("v") != ob["site"].get("v") or sp["iter"].get("v") != ob["iter"]:
            return "probe sequence differs: specification site %s iter %s, implementation site %s iter %s" % (
                sp["site"], sp["iter"], ob["site"], ob["iter"])
        groups.setdefault((sp["site"]["v"], sp["depth"]), []).append(ob)
    for (site, depth), obs in groups.items():
        obs = obs[1:]      # steady state: the first visit of a site may pay one-time costs (lazily built structures)
        if len(obs) < 2:
            continue
        sps = [o["sp"] for o in obs]
        lives = [o["live"] for o in obs]
        if max(sps) - min(sps) > SP_SLACK_SMALL:
            return "site %d: equal abstract continuation (depth %d) but native stack addresses spread over %d bytes: %s" % (
                site, depth, max(sps) - min(sps), [max(sps) - x for x in sps])
        if max(lives) - min(lives) > LIVE_SLACK_SMALL:
            return "site %d: equal abstract continuation but live heap spreads over %d bytes: %s" % (site, max(lives) - min(lives), lives)
    return None


def with_count(forms, small_n, big_n):
    forms = copy.deepcopy(forms)
    last = forms[-1]
    hits = [0]

    def rep(e):
        if isinstance(e, dict):
            if e.get("t") == "lit" and e["v"] == {"t": "int", "v": small_n}:
                hits[0] += 1
                e["v"] = {"t": "int", "v": big_n}
            else:
                for v in e.values():
                    rep(v)
        elif isinstance(e, list):
            for v in e:
                rep(v)
    rep(last)
    if hits[0] != 1:
        raise ToolError("cannot locate the iteration count in %s" % S.render(last))
    return forms


def run(ctx):
    tier = ctx.tier
    build_harness()
    # ---- MC 1: bounded continuation for ALL iteration counts (non-terminating abstract loops, finite graphs)
    r = run_tlc("MCMachine.tla", "MCMachine_tail_inf_broken.cfg", ctx.dir, workers=8, timeout=1200)
    if r.violation != "KontBounded":
        raise ToolError("sensitivity: the machine that keeps a frame for an if arm was not rejected")
    ctx.stage("model-sensitivity", variant="NonTailIf machine", tlc_verdict="KontBounded violated (as required)")
    inf = "MCMachine_tail_inf_1.cfg" if tier == "quick" else "MCMachine_tail_inf_2.cfg"
    r = run_tlc("MCMachine.tla", inf, ctx.dir, workers=12, timeout=3000)
    require_clean(r, inf)
    ctx.add_tlc(r, inf + " (non-terminating loops: finite state graph, Len(kont) <= 4 everywhere)")
    # ---- MC 2: terminating members return N; vectors with the abstract continuation depth at each probe
    vecs = []
    for c in ["MCMachine_tail_fin_1.cfg", "MCMachine_tail_fin_2.cfg"]:
        r = run_tlc("MCMachine.tla", c, ctx.dir, workers=12, timeout=3000)
        require_clean(r, c)
        ctx.add_tlc(r, c)
        vecs += r.vecs
    seen = {}
    for v in vecs:
        seen[canon(v["forms"])] = v
    vecs = [seen[k] for k in sorted(seen)]
    # ---- replay, small N: full comparison + R-space at every probe
    for via_apply in (0, 1, 2):
        part = [v for v in vecs if v["tag"][2] == via_apply]
        jobs = [S.program_job(i, v["forms"]) for i, v in enumerate(part)]
        results = run_jobs(jobs, ctx.dir, tag="small-%d" % via_apply, timeout=2400)
        for v, res in zip(part, results):
            if res.get("skipped"):
                continue
            ctx.count(evaluations=1, validated=1)
            ctx.nontrivial_key(v["forms"])
            text = " ".join(S.render(f) for f in v["forms"])
            exp = []
            spec_probes = []
            for e in v["results"]:
                p, t = split_out(e["out"])
                spec_probes += p
                exp.append({"r": e["r"], "out": t})
            d = S.compare_program(exp, res) if not res.get("crashed") else (len(exp) - 1, "process died", exp[-1], res.get("status"))
            why = None
            if d:
                why = "form %d %s: specification %s; implementation %s" % (d[0], d[1], json.dumps(d[2]["r"]), json.dumps(d[3])[:300])
            else:
                obs = []
                for o in res["results"][1:]:
                    obs += o.get("probes", [])
                why = rspace_small(spec_probes, obs)
            if why:
                ctx.violation(sigs_fn(v["forms"], v["tag"]), "%s : %s" % (text, why),
                              {"stage": "small", "forms": v["forms"], "expected": v["results"]})
    ctx.stage("replay-small-N", programs=len(vecs), exhaustive=True)
    # ---- large N: result = N, stack and live heap do not grow with the count
    rng = random.Random(ctx.seed)
    big = 100000 if tier == "quick" else 300000
    d01 = [v for v in vecs if len(v["tag"][3]) <= 1 and v["tag"][4] == 3]
    d2 = [v for v in vecs if len(v["tag"][3]) == 2 and v["tag"][4] == 3]
    sample = d01 + rng.sample(d2, min(len(d2), 300 if tier == "quick" else 2892))
    for via_apply in (0, 1, 2):
        part = [v for v in sample if v["tag"][2] == via_apply]
        jobs = []
        for i, v in enumerate(part):
            forms = with_count(v["forms"], 3, big)
            steps = [{"op": "new", "i": 0}, {"op": "probecfg", "every": big // 8}]
            steps += [{"op": "eval", "i": 0, "text": S.render(f)} for f in forms]
            jobs.append({"id": i, "kind": "session", "steps": steps})
        results = run_jobs(jobs, ctx.dir, tag="large-%d" % via_apply, timeout=3000, per_job_timeout=120)
        for v, res in zip(part, results):
            if res.get("skipped"):
                ctx.cov["skipped_after_crashes"] = ctx.cov.get("skipped_after_crashes", 0) + 1
                continue
            ctx.count(evaluations=1, validated=1)
            text = " ".join(S.render(f) for f in with_count(v["forms"], 3, big))
            why = None
            if res.get("crashed"):
                why = "the process died (%s) - native stack exhausted by a loop of tail calls" % res.get("status")
            else:
                last = res["results"][-1]
                if last.get("k") != "value" or last["v"] != {"t": "int", "v": big}:
                    why = "result %s, expected %d (LoopResult)" % (json.dumps(last)[:200], big)
                else:
                    pr = [p for p in last.get("probes", []) if 2 <= p["iter"] <= big - 2]
                    by_site = {}
                    for p in pr:
                        by_site.setdefault(json.dumps(p["site"]), []).append(p)
                    if not pr:
                        why = "no probes recorded"
                    for site, ps in by_site.items():
                        sps = [p["sp"] for p in ps]; lives = [p["live"] for p in ps]
                        if max(sps) - min(sps) > SP_SPREAD_LARGE:
                            why = "native stack grows with the iteration count: spread %d bytes over %d sampled iterations" % (max(sps) - min(sps), len(ps))
                        elif max(lives) - min(lives) > LIVE_SPREAD_LARGE:
                            why = "live heap grows with the iteration count: spread %d bytes" % (max(lives) - min(lives))
            if why:
                ctx.violation(sigs_fn(v["forms"], v["tag"]) + [{"kind": "input_class", "value": c + "-large-N"} for c in classes(v["forms"])],
                              "%s : %s" % (text, why), {"stage": "large", "forms": v["forms"], "n": big})
    ctx.stage("large-N", programs=len(sample), iterations=big)
    for v in sample[:3]:
        ctx.sample({"program": " ".join(S.render(f) for f in with_count(v["forms"], 3, big))})
    ctx.assumptions += ["stack address of a local in a host procedure and the harness's per-thread counting allocator are the space measures",
                        "slacks: 1 KiB / 4 KiB between iterations with equal abstract continuation at small N; 16 KiB stack and 64 KiB heap spread at large N (>= 100x below one frame per iteration)"]
    return ctx.finish(rule="every composition of 15 tail contexts to depth 2 x 8 loop shapes (incl. a closure built per turn, and a closure over the caller's frame passed as an operand of the tail call) x direct/apply call; MC: non-terminating abstract loops have finite graphs with bounded continuation; "
                           "replay at N=0,1,3 with R-space at each probe; N=1e5 (quick) on all depth<=1 members and a seeded sample of depth-2 members; non-trivial = distinct program")


def replay(ctx, case):
    forms = case["forms"]
    if case.get("stage") == "large":
        forms = with_count(forms, 3, case["n"])
    log("program:", " ".join(S.render(f) for f in forms))
    steps = [{"op": "new", "i": 0}, {"op": "probecfg", "every": max(1, case.get("n", 8) // 8)}]
    steps += [{"op": "eval", "i": 0, "text": S.render(f)} for f in forms]
    res = run_jobs([{"id": 0, "kind": "session", "steps": steps}], ctx.dir, tag="replay1", per_job_timeout=120)[0]
    log(json.dumps(res)[:3000])
    return 1
