# C12 Import sets bind exactly the names the import-set algebra yields
import os, random, subprocess, json
from .common import *

VALUES = {"a": 1, "b": 2, "c": 3, "d": 4}
ORIGIN = {v: k for k, v in VALUES.items()}


def render_term(t):
    k = t["t"]
    if k == "lib":
        return "(lib)"
    if k in ("only", "except"):
        return "(%s %s%s)" % (k, render_term(t["s"]), "".join(" " + i for i in t["ids"]))
    if k == "prefix":
        return "(prefix %s %s)" % (render_term(t["s"]), t["p"])
    if k == "rename":
        return "(rename %s%s)" % (render_term(t["s"]), "".join(" (%s %s)" % (a, b) for a, b in t["pairs"]))
    raise ValueError(k)


def render_decl(decl):
    return "(import " + " ".join(render_term(t) for t in decl) + ")"


def job_for(decl, jid, exports, repeats):
    steps = []
    for r in range(repeats):
        steps += [{"op": "new", "i": r, "stdlib": False, "natives": False},
                  {"op": "regnative", "i": r, "name": ["lib"],
                   "exports": [{"name": e, "v": {"t": "int", "v": VALUES[e]}} for e in exports]},
                  {"op": "eval", "i": r, "text": render_decl(decl)},
                  {"op": "env", "i": r, "all": True}]
    return {"id": jid, "kind": "session", "steps": steps}


def observed_binds(result, r):
    """projection: (import outcome, env dump) of repeat r -> outcome kind, list of {name, origin}"""
    res = result["results"]
    if result.get("skipped"):
        return ("skipped", None)
    if len(res) < 4 * (r + 1):
        return ("incomplete", res[-1] if res else None)
    imp, env = res[4 * r + 2], res[4 * r + 3]
    if imp.get("k") != "none":
        return ("import-failed", imp)
    obs = []
    for d in env["defs"]:
        v = d["v"]
        origin = ORIGIN.get(v.get("v"), "?") if v.get("t") == "int" else "?"
        obs.append({"name": d["name"], "origin": origin})
    return ("ok", sorted(obs, key=lambda o: o["name"]))


def gen_term(rng, exports, depth, strays=False):
    """random admissible term of the given nesting depth (impl -> spec direction); returns (term, names)"""
    term, names = {"t": "lib"}, {e: e for e in exports}
    pool = list(exports) + ["x", "y", "z", "w"]
    for _ in range(depth):
        op = rng.choice(["only", "except", "prefix", "rename", "rename"])
        cur = sorted(names)
        if op in ("only", "except"):
            ids = [n for n in cur if rng.random() < 0.5]
            if strays and rng.random() < 0.35:
                # identifiers that are not in the set (never were, or were removed or renamed away further in): listing
                # them is an error or has no effect - it never binds them
                gone = [e for e in list(exports) + ["x", "p-" + exports[0]] if e not in names]
                ids += rng.sample(gone, min(len(gone), rng.randint(1, 2)))
            rng.shuffle(ids)
            term = {"t": op, "s": term, "ids": ids}
            names = {n: o for n, o in names.items() if (n in ids) == (op == "only")}
        elif op == "prefix":
            p = rng.choice(["p-", "a", "q", "lib:"])
            term = {"t": "prefix", "s": term, "p": p}
            names = {p + n: o for n, o in names.items()}
        else:
            if not cur:
                continue
            k = rng.randint(1, min(3, len(cur)))
            froms = rng.sample(cur, k)
            style = rng.choice(["perm", "fresh", "mixed"])
            if style == "perm":
                tos = froms[1:] + froms[:1]      # cycle (swap when k = 2)
            elif style == "fresh":
                tos = rng.sample([p for p in pool if p not in names], min(k, len([p for p in pool if p not in names])))
                froms = froms[:len(tos)]
            else:
                # chain: a -> b, b -> fresh
                fresh = [p for p in pool if p not in names]
                tos = froms[1:] + ([fresh[0]] if fresh else froms[:1])
            pairs = [[f, t] for f, t in zip(froms, tos)]
            if not pairs:
                continue
            m = dict((f, t) for f, t in pairs)
            new = {}
            okay = True
            for n, o in names.items():
                nn = m.get(n, n)
                if nn in new:
                    okay = False
                new[nn] = o
            if not okay:
                continue
            term = {"t": "rename", "s": term, "pairs": pairs}
            names = new
    return term, names


def run(ctx):
    tier = ctx.tier
    exports = ["a", "b", "c"] if tier == "quick" else ["a", "b", "c", "d"]
    build_harness()
    # ---- sensitivity of the model: the sequential-rename variant must be rejected by TLC
    r = run_tlc("MCImportSet.tla", "MCImportSet_broken.cfg", ctx.dir, workers=4, timeout=600)
    if r.violation != "Laws":
        raise ToolError("sensitivity: the broken ImportSet model (sequential rename) was not rejected by TLC")
    ctx.stage("model-sensitivity", variant="seqrename", tlc_verdict="Laws violated (as required)")
    # ---- MC: the universe, the laws, the vectors
    r = run_tlc("MCImportSet.tla", "MCImportSet_%s.cfg" % tier, ctx.dir, workers=8, timeout=3000, coverage=False)
    require_clean(r, "MCImportSet")
    if not r.vecs:
        raise ToolError("MCImportSet produced no vectors")
    ctx.add_tlc(r, "MCImportSet_" + tier)
    vecs = sorted(r.vecs, key=canon)
    # ---- replay: spec -> impl, in several processes (different HashMap seeds), 3 interpreters each
    procs = 3 if tier == "quick" else 8
    repeats = 3
    jobs = [job_for(v["decl"], i, exports, repeats) for i, v in enumerate(vecs)]
    for p in range(procs):
        results = run_jobs(jobs, ctx.dir, tag="replay%d" % p, timeout=1200)
        for v, res in zip(vecs, results):
            expected = sorted(v["binds"], key=lambda o: o["name"])
            for rep in range(repeats):
                st, obs = observed_binds(res, rep)
                ctx.count(evaluations=1, validated=1)
                if st == "skipped":
                    break
                if st != "ok" or obs != expected:
                    ctx.violation({"kind": "vector", "value": render_decl(v["decl"])},
                                  "%s: expected bindings %s, observed %s (%s), process %d interpreter %d" %
                                  (render_decl(v["decl"]), expected, obs, st, p, rep),
                                  {"stage": "replay", "decl": v["decl"], "exports": exports, "expected": expected})
                    break
    for v in vecs:
        if len(v["binds"]) and any(b["name"] != b["origin"] for b in v["binds"]):
            ctx.nontrivial_key(v["decl"])
    for v in vecs[:: max(1, len(vecs) // 4)][:4]:
        ctx.sample({"import": render_decl(v["decl"]), "expected": v["binds"]})
    ctx.stage("replay", declarations=len(vecs), processes=procs, interpreters_per_process=repeats, exhaustive=True)
    # ---- validate: impl -> spec, random deeper terms checked by ImportSetTrace
    rng = random.Random(ctx.seed)
    n = 400 if tier == "quick" else 6000
    ex4 = ["a", "b", "c", "d"]
    decls = []
    while len(decls) < n:
        k = rng.choice([1, 1, 1, 2, 3])
        d, merged, okay = [], {}, True
        for _ in range(k):
            t, names = gen_term(rng, ex4, rng.randint(0, 5), strays=(len(decls) % 3 == 0))
            for nme, o in names.items():
                if merged.get(nme, o) != o:
                    okay = False
                merged[nme] = o
            d.append(t)
        if okay:
            decls.append(d)
    # directed: an outer only/except/rename that lists a name the inner layer has just removed or renamed away, next to one
    # that is still there (every inner layer x outer layer x position)
    L = {"t": "lib"}
    a_, b_, c_ = ex4[0], ex4[1], ex4[2]
    inners = [({"t": "except", "s": L, "ids": [a_]}, a_, b_), ({"t": "only", "s": L, "ids": [b_, c_]}, a_, b_),
              ({"t": "rename", "s": L, "pairs": [[a_, "x"]]}, a_, b_), ({"t": "prefix", "s": L, "p": "p-"}, a_, "p-" + b_),
              ({"t": "except", "s": {"t": "except", "s": L, "ids": [c_]}, "ids": [a_]}, a_, b_),
              ({"t": "except", "s": {"t": "prefix", "s": L, "p": "p-"}, "ids": ["p-" + a_]}, "p-" + a_, "p-" + b_)]
    for inner, gone, kept in inners:
        for outer in ("only", "except"):
            for ids in ([gone], [gone, kept], [kept, gone]):
                decls.append([{"t": outer, "s": inner, "ids": ids}])
        decls.append([{"t": "rename", "s": inner, "pairs": [[gone, "y"]]}])
        decls.append([{"t": "rename", "s": inner, "pairs": [[gone, "y"], [kept, "z"]]}])
        decls.append([{"t": "prefix", "s": {"t": "only", "s": inner, "ids": [gone, kept]}, "p": "q-"}])
    jobs = [job_for(d, i, ex4, 1) for i, d in enumerate(decls)]
    results = run_jobs(jobs, ctx.dir, tag="validate", timeout=1200)
    tpath = os.path.join(ctx.dir, "trace.ndjson")
    alld, decls = decls, []
    with open(tpath, "w") as f:
        for d, res in zip(alld, results):
            st, obs = observed_binds(res, 0)
            if st == "skipped":
                continue
            decls.append(d)
            if st != "ok":
                obs = [{"name": "!" + st, "origin": "?"}]
            f.write(json.dumps({"ev": "import", "decl": d, "failed": st != "ok", "obs": obs if st == "ok" else []}) + "\n")
    tr = run_tlc("ImportSetTrace.tla", "ImportSetTrace.cfg", ctx.dir, workers=1, timeout=1800, xss="512m",
                 env={"TRACE": tpath}, want_tags=("MISMATCH",))
    done = [m for m in tr.msgs if m[0] == "DONE"]
    if tr.error or tr.violation or not done or done[0][1]["events"] != len(decls):
        raise ToolError("ImportSetTrace did not consume the whole trace: %s %s" % (tr.error, tr.violation))
    ctx.add_tlc(tr, "ImportSetTrace")
    for m in tr.vecs:
        d = decls[m["event"] - 1]
        ctx.violation({"kind": "input", "value": render_decl(d)},
                      "%s: spec expects %s, implementation bound %s" % (render_decl(d), m["expected"], m["observed"]),
                      {"stage": "validate", "decl": d, "exports": ex4, "expected": m["expected"]})
    ctx.count(evaluations=len(decls), validated=len(decls))
    for d in decls:
        ctx.nontrivial_key(d)
    ctx.sample({"validated_import": render_decl(decls[0])})
    ctx.stage("validate", random_declarations=len(decls), mismatches=len(tr.vecs))
    ctx.cov["exhaustive"] = True
    ctx.assumptions += ["value projection: exports are the integers 1..4, mapped back to their export names",
                        "hash-seed variation is obtained by separate processes and fresh interpreters, not controlled directly"]
    return ctx.finish(rule="replay: every admissible declaration of the bounded universe printed by TLC (depth<=2, pairs of depth<=1); "
                           "validate: seeded random declarations up to depth 5 checked by ImportSetTrace.tla; "
                           "non-trivial = distinct declaration whose result differs from the plain export set")


def replay(ctx, case):
    exports = case["exports"]
    res = run_jobs([job_for(case["decl"], 0, exports, 1)], ctx.dir, tag="replay1")[0]
    st, obs = observed_binds(res, 0)
    expected = sorted(case["expected"], key=lambda o: o["name"])
    log("declaration:", render_decl(case["decl"]))
    log("expected:", expected)
    log("observed:", st, obs)
    if st != "ok" or obs != expected:
        ctx.violation({"kind": "vector", "value": render_decl(case["decl"])}, "replayed: still differs", case)
    return 1 if ctx.nviol else 0
