# C11 The list library computes what its specification says
import random
from .common import *
from . import scheme as S, machine as M, gen as G


def sigs_fn(forms, tag):
    return [{"kind": "vector", "value": " ".join(S.render(f) for f in forms)}]


def run(ctx):
    tier = ctx.tier
    build_harness()
    fam = "lists_quick" if tier == "quick" else "lists_full"
    r = run_tlc("MCMachine.tla", "MCMachine_%s.cfg" % fam, ctx.dir, workers=12, timeout=3000, coverage=(tier == "thorough"))
    require_clean(r, "MCMachine " + fam)
    ctx.add_tlc(r, "MCMachine_" + fam)
    vecs = sorted(r.vecs, key=lambda v: canon(v["forms"]))
    if not vecs:
        raise ToolError("no vectors")
    M.replay_vectors(ctx, vecs, sigs_fn)
    for v in vecs:
        ctx.nontrivial_key(v["forms"])
    for v in vecs[:: max(1, len(vecs) // 3)][:3]:
        ctx.sample({"call": S.render(v["forms"][0]), "expected": v["results"][0]})
    ctx.stage("replay", calls=len(vecs), exhaustive=True)
    rng = random.Random(ctx.seed)
    n = 400 if tier == "quick" else 6000
    progs = [G.list_program(rng) for _ in range(n)]
    mism, results = M.validate_programs(ctx, progs, "validate")
    M.report_mismatches(ctx, progs, mism, sigs_fn)
    for p in progs:
        ctx.nontrivial_key(p)
    ctx.sample({"validated_calls": " ".join(S.render(f) for f in progs[0])[:600]})
    ctx.stage("validate", programs=n, mismatches=len(mism))
    ctx.assumptions += ["folds are given proper lists only (an improper list is outside their domain)",
                        "equal?, memq, memv are specified on atoms and lists of them; eq?/eqv? on pairs is not constrained"]
    return ctx.finish(rule="replay: every library procedure on every list of length <= 3 over 4 element kinds (proper, improper, nested) and every index -1..4, with ticking procedure arguments (Programs!ListFamily; ListLaw states the algebraic laws on the machine's results); "
                           "validate: random arguments (lists to length 12, nesting 3) and random compositions of library calls checked by MachineTrace.tla; non-trivial = distinct call/program")


def replay(ctx, case):
    return M.generic_replay(ctx, case, sigs_fn)
