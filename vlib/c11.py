# C11 The list library computes what its specification says
import random, json
from .common import *
from . import scheme as S, machine as M, gen as G


def sigs_fn(forms, tag):
    return [{"kind": "vector", "value": " ".join(S.render(f) for f in forms)}]


# ---- pairs with identity (Pairs.tla / MCPairs.tla) --------------------------------------------
PRELUDE = ["(define x1 (list 1 2))", "(define x2 (list 1 2))", "(define x3 (list x1 2))", "(define x4 (cons 1 x2))"]


def operand(o):
    if o["k"] == "var":
        return "x%d" % o["i"]
    return S.render_datum(o["v"]) if o["v"]["t"] != "nil" else "'()"


def op_text(o):
    k = o["op"]
    if k in ("list2", "cons"):
        return "(%s %s %s)" % ("list" if k == "list2" else "cons", operand(o["u"]), operand(o["w"]))
    if k in ("car", "cdr", "last-pair"):
        return "(%s x%d)" % (k, o["i"])
    if k == "append":
        return "(append x%d %s)" % (o["i"], operand(o["w"]))
    if k == "list-tail":
        return "(list-tail x%d %d)" % (o["i"], o["n"])
    return "(%s %s x%d)" % (k, operand(o["u"]), o["i"])


def is_pair(d):
    return d["t"] == "pair"


def pair_program(v):
    """-> texts, expectations per text (None: a definition), index of the first text not to be judged.
    Only procedures C11 lists are observed: the value of each new variable and equal? against every earlier one
    (eq?/eqv? themselves are not among them, and Ruschm's pairs carry no identity that could be observed otherwise)."""
    texts, exp = list(PRELUDE), [None] * len(PRELUDE)
    for n, o in enumerate(v["ops"]):
        k = len(PRELUDE) + n + 1
        texts.append("(define x%d %s)" % (k, op_text(o))); exp.append(None)
        texts.append("(list x%d %s)" % (k, " ".join("(equal? x%d x%d)" % (k, i) for i in range(1, k))))
        # memq/memv asked to find a PAIR: the specification finds it by identity only
        by_identity = o["op"] in ("memq", "memv") and o["u"]["k"] == "var" and is_pair(v["vals"][o["u"]["i"] - 1])
        exp.append((v["vals"][k - 1], v["probes"][n], by_identity))
    return texts, exp


def pairs_stage(ctx, vecs, tag):
    GROUP = 40
    jobs = []
    progs = [pair_program(v) for v in vecs]
    for c in range(0, len(progs), GROUP):
        steps = [{"op": "new", "i": 0, "natives": False}]
        for texts, _ in progs[c:c + GROUP]:
            steps += [{"op": "eval", "i": 0, "text": t} for t in texts]
        jobs.append({"id": c, "kind": "session", "steps": steps})
    res = run_jobs(jobs, ctx.dir, tag=tag, timeout=3000, job_timeout_ms=60000)
    for j, r in zip(jobs, res):
        if r.get("skipped"):
            continue
        rs = r["results"][1:]
        pos = 0
        for (texts, exp), v in zip(progs[j["id"]:j["id"] + GROUP], vecs[j["id"]:j["id"] + GROUP]):
            outs = rs[pos:pos + len(texts)]; pos += len(texts)
            ctx.count(evaluations=1, validated=1)
            for t, e, o in zip(texts, exp, outs + [{"k": "notrun"}] * (len(texts) - len(outs))):
                ob = S.to_spec_outcome(o)
                why = None
                if e is None:
                    if ob.get("k") != "none":
                        why = "%s -> %s" % (t, json.dumps(ob)[:200])
                else:
                    val, probes, by_identity = e
                    want = S.vlist([val] + [S.vbool(p["equal"]) for p in probes])
                    if ob.get("k") != "value" or not S.match(want, ob["v"]):
                        why = "%s : the specification gives %s, the implementation %s" % (t, S.render_datum_loose(want), S.render_datum_loose(ob["v"]) if ob.get("k") == "value" else json.dumps(ob)[:200])
                if why:
                    text = " ".join(texts[len(PRELUDE):][::2])
                    sigs = [{"kind": "vector", "value": "pairs: " + text}]
                    if e is not None and e[2] and is_pair(e[0]):
                        # the specification found the pair (by identity) and the implementation did not
                        sigs.append({"kind": "input_class", "value": "memq-or-memv-of-a-pair-that-is-an-element-of-the-list"})
                    ctx.violation(sigs, "after %s %s" % (" ".join(PRELUDE), why), {"stage": "pairs", "vec": v})
                    break              # later forms of the program depend on this one


def run_pairs(ctx, tier):
    rb = run_tlc("MCPairs.tla", "MCPairs_broken.cfg", ctx.dir, workers=4, timeout=600)
    if not rb.violation:
        raise ToolError("the model in which memv compares structurally was not rejected")
    ctx.stage("model-sensitivity", model="memv with equal?", rejected=True)
    r = run_tlc("MCPairs.tla", "MCPairs_quick.cfg", ctx.dir, workers=12, timeout=3000)
    require_clean(r, "MCPairs quick")
    ctx.add_tlc(r, "MCPairs_quick (MemvLaw, AppendLaw, EquivLaw on every 2-operation program over the sharing prelude)")
    vecs = sorted(r.vecs, key=lambda v: canon(v["ops"]))
    seen = {canon(v["ops"]) for v in vecs}
    walks = []
    for k in range(2 if tier == "quick" else 8):
        rs = run_tlc("MCPairs.tla", "MCPairs_sim.cfg", ctx.dir, tag="MCPairs_sim%d" % k, workers=1, timeout=600, simulate="num=%d" % (3 if tier == "quick" else 25),
                     depth=8, seed=ctx.seed * 100 + k)
        require_clean(rs, "MCPairs simulate")
        ctx.add_tlc(rs, "simulate")
        for v in rs.vecs:
            if canon(v["ops"]) not in seen:
                seen.add(canon(v["ops"])); walks.append(v)
    pairs_stage(ctx, vecs + walks, "pairs")
    for v in vecs + walks:
        ctx.nontrivial_key(v["ops"])
    # in simulation mode TLC evaluates the emitting invariant on every successor it generates, so one walk yields
    # every 6-operation program that shares its first five operations
    ctx.stage("pairs-identity", programs=len(vecs), walks=len(walks), exhaustive=True)


def run(ctx):
    tier = ctx.tier
    build_harness()
    fam = "lists_quick" if tier == "quick" else "lists_full"
    r = run_tlc("MCMachine.tla", "MCMachine_%s.cfg" % fam, ctx.dir, workers=12, timeout=3000, coverage=(tier == "thorough"))
    require_clean(r, "MCMachine " + fam)
    ctx.add_tlc(r, "MCMachine_" + fam)
    vecs = sorted(r.vecs, key=lambda v: canon(v["forms"]))
    if not vecs:
        raise ToolError("no vectors")
    # which error is raised is not C11's claim ("raise an error rather than return a value"): classification is C08's
    for v in vecs:
        for res in v["results"]:
            if res["r"]["k"] == "error":
                res["r"]["kind"] = "AnyError"
    M.replay_vectors(ctx, vecs, sigs_fn)
    for v in vecs:
        ctx.nontrivial_key(v["forms"])
    for v in vecs[:: max(1, len(vecs) // 3)][:3]:
        ctx.sample({"call": S.render(v["forms"][0]), "expected": v["results"][0]})
    ctx.stage("replay", calls=len(vecs), exhaustive=True)
    rng = random.Random(ctx.seed)
    n = 400 if tier == "quick" else 6000
    progs = [G.list_program(rng) for _ in range(n)]
    mism, results = M.validate_programs(ctx, progs, "validate", anykind=True)
    M.report_mismatches(ctx, progs, mism, sigs_fn)
    for p in progs:
        ctx.nontrivial_key(p)
    ctx.sample({"validated_calls": " ".join(S.render(f) for f in progs[0])[:600]})
    ctx.stage("validate", programs=n, mismatches=len(mism))
    run_pairs(ctx, tier)
    # ---- equal? and memv on NUMBERS inside lists: the value model's numbers are exact integers, so these calls are judged by the
    # numeric specification (NumbersX: the eqv? verdict - same exactness and numerically equal); equal? of two lists is eqv? of
    # their leaves, memv finds an element exactly when it is eqv? to the key
    from . import numbers as N
    I = lambda n: {"t": "int", "v": n}
    Q = lambda n, d: {"t": "rat", "n": n, "d": d}
    F = lambda s_, e, m: {"t": "real", "s": s_, "e": e, "m": m}
    nums = [("2", I(2)), ("2.0", F(0, 128, 0)), ("4", I(4)), ("4.0", F(0, 129, 0)), ("1/2", Q(1, 2)), ("0.5", F(0, 126, 0)), ("2/4", Q(2, 4)),
            ("0", I(0)), ("0.0", F(0, 0, 0)), ("-0.0", F(1, 0, 0)), ("(/ 4 2)", I(2)), ("(+ 1/4 1/4)", Q(1, 2)), ("2.5", F(0, 128, 2097152)), ("5/2", Q(5, 2))]
    shapes = ["(equal? %s %s)", "(equal? (list %s) (list %s))", "(equal? (cons 'a %s) (cons 'a %s))", "(equal? (list 'a (list %s) 'b) (list 'a (list %s) 'b))",
              "(equal? (list 1 2 %s) (list 1 2 %s))", "(pair? (memv %s (list 'x %s 'y)))", "(pair? (memv %s (list %s)))"]
    ec = []
    for (ta, a) in nums:
        for (tb, b) in nums:
            for sh in shapes:
                ec.append({"op": "eqv?", "srcs": [ta, tb], "args": [a, b], "text": sh % (ta, tb)})
    bade, _ = N.validate_cases(ctx, ec, "equal-numbers", shards=2)
    N.report(ctx, "C11", bade, "equal?/memv on numbers inside lists")
    ctx.stage("equal-on-numbers", cases=len(ec), rejected=len(bade))
    ctx.assumptions += ["folds are given proper lists only (an improper list is outside their domain)",
                        "in the value model (Machine.tla) eq?/eqv? on pairs is not constrained; identity of pairs is decided by the heap model Pairs.tla (freshly built lists only: the identity of quoted constants is left open by R7RS)"]
    return ctx.finish(rule="replay: every library procedure on every list of length <= 3 over 4 element kinds (proper, improper, nested) and every index -1..4, with ticking procedure arguments (Programs!ListFamily; ListLaw states the algebraic laws on the machine's results); "
                           "validate: random arguments (lists to length 12, nesting 3) and random compositions of library calls checked by MachineTrace.tla; pairs: every 2-operation program (list, cons, car, cdr, append, list-tail, last-pair, memq, memv) over a prelude of structurally equal but distinct lists, and simulate walks of 6 operations, each new object compared with every earlier one by eq?/eqv?/equal?; non-trivial = distinct call/program")


def replay(ctx, case):
    return M.generic_replay(ctx, case, sigs_fn)
