# Greedy shrinking of a program (list of top-level forms) that disagrees with the specification.
# Candidates of one round are validated in one batch (one harness run, one TLC run).
import copy, json
from . import scheme as S

EXPR_KEYS = {"f", "c", "a", "e", "key"}          # single sub-expression fields
SEQ_KEYS = {"as", "es", "body", "b"}             # sequences of expressions


def size(x):
    if isinstance(x, dict):
        return 1 + sum(size(v) for v in x.values())
    if isinstance(x, list):
        return sum(size(v) for v in x)
    return 0


def is_expr(x):
    return isinstance(x, dict) and x.get("t") in ("lit", "var", "quote", "app", "lam", "if", "set", "begin", "let", "letstar",
                                                   "cond", "case", "and", "or", "when", "unless")


def paths(x, prefix=()):
    """all paths to dict/list nodes"""
    yield prefix, x
    if isinstance(x, dict):
        for k, v in x.items():
            if isinstance(v, (dict, list)):
                yield from paths(v, prefix + (k,))
    elif isinstance(x, list):
        for i, v in enumerate(x):
            if isinstance(v, (dict, list)):
                yield from paths(v, prefix + (i,))


def get(x, path):
    for p in path:
        x = x[p]
    return x


def put(root, path, val):
    r = copy.deepcopy(root)
    if not path:
        return val
    x = r
    for p in path[:-1]:
        x = x[p]
    x[path[-1]] = val
    return r


def sub_exprs(e):
    out = []
    for k, v in e.items():
        if is_expr(v):
            out.append(v)
        elif isinstance(v, list):
            for y in v:
                if is_expr(y):
                    out.append(y)
                elif isinstance(y, dict):
                    for z in y.values():
                        if is_expr(z):
                            out.append(z)
                        elif isinstance(z, list):
                            out += [w for w in z if is_expr(w)]
                elif isinstance(y, list):
                    out += [w for w in y if is_expr(w)]
    return out


def candidates(forms):
    seen = set()
    out = []

    def add(c):
        k = json.dumps(c, sort_keys=True)
        if k not in seen and c:
            seen.add(k); out.append(c)
    # drop a whole form
    for i in range(len(forms)):
        add(forms[:i] + forms[i + 1:])
    for path, node in paths(forms):
        if not path:
            continue
        if is_expr(node):
            for s in sub_exprs(node):
                add(put(forms, path, s))
            if node["t"] not in ("lit", "var"):
                add(put(forms, path, S.lit(0)))
                add(put(forms, path, S.lit(False)))
            if node["t"] == "app" and node["f"].get("t") == "var" and node["f"]["x"] == "tick!" and len(node["as"]) == 2:
                add(put(forms, path, node["as"][1]))
            if node["t"] == "lit" and node["v"].get("t") == "int" and node["v"]["v"] not in (0, 1):
                add(put(forms, path, S.lit(1)))
        if isinstance(node, list) and len(node) >= 1 and path and path[-1] in ("as", "es", "body", "cls", "bs", "defs", "ds", "ps"):
            minlen = 1 if path[-1] in ("body",) else 0
            if len(node) > minlen:
                for i in range(len(node)):
                    add(put(forms, path, node[:i] + node[i + 1:]))
    out.sort(key=size)
    return out


def shrink(forms, still_fails, max_rounds=40, batch=400):
    """still_fails(list of candidate programs) -> list of booleans"""
    cur = forms
    for _ in range(max_rounds):
        cands = candidates(cur)[:batch]
        if not cands:
            break
        flags = still_fails(cands)
        nxt = None
        for c, f in zip(cands, flags):
            if f:
                nxt = c
                break
        if nxt is None:
            break
        cur = nxt
    return cur
