# C15 Reported error locations point into the form that failed
import random, os, re, json, concurrent.futures
from .common import *
from . import scheme as S, gen as G
from .c18 import tokens_with_depth, strip_ansi, cps

SITE_VAR = "offending-identifier"
SITE_OP = "98765"


HELPERS = ["(define (helper-second l) (car (cdr l)))", "(define (helper-div a b) (/ a b))", "(define (helper-ref v k) (vector-ref v k))",
           "(define (helper-call f x) (f x))", "(define (helper-loop n) (if (= n 0) (car n) (helper-loop (- n 1))))"]


MACROS = ["(define-syntax check-all (syntax-rules () ((check-all e ...) (begin (if e #t (report-the-failure 'e)) ...))))",
          "(define-syntax call-all (syntax-rules () ((call-all e ...) (list (if (< e 2) e (98765 e)) ...))))",
          "(define-syntax first-of-all (syntax-rules () ((first-of-all e ...) (list (car e) ...))))",
          "(define-syntax kar-of-all (syntax-rules () ((kar-of-all l) (kar-that-nobody-defined l))))",
          "(define-syntax five-of-all (syntax-rules () ((five-of-all x) (98765 x))))"]


def fault_form(rng):
    """a top-level form that fails, with the fault textually inside it; -> (AST, kind, site token or None)"""
    kind = rng.choice(["Unbound", "Unbound", "UnboundAssign", "NonProcedure", "NonProcedure", "WrongType", "DivByZero", "IndexRange", "Arity", "ImmutableVector",
                       "Elsewhere", "Elsewhere", "Elsewhere"])
    if kind == "Elsewhere":
        # the faulting operation is executed INSIDE a procedure written elsewhere - a helper defined by an earlier form
        # (HELPERS) or a procedure of the bundled library - but the form whose evaluation fails is this one
        f, kind = rng.choice([(S.app("cadr", S.app("list", S.lit(1))), "WrongType"), (S.app("caddr", S.quote(S.vlist([S.vint(1), S.vint(2)]))), "WrongType"),
                              (S.app("list-ref", S.app("list", S.lit(1), S.lit(2)), S.lit(5)), "WrongType"),
                              (S.app("list-tail", S.app("list", S.lit(1)), S.lit(3)), "WrongType"),
                              (S.app("fold-left", S.var("+"), S.lit(0), S.quote(S.vlist([S.vint(1), S.vsym("x")]))), "WrongType"),
                              (S.app("map", S.var("car"), S.quote(S.vlist([S.vint(1), S.vint(2)]))), "WrongType"),
                              (S.app("helper-second", S.app("list", S.lit(1))), "WrongType"),
                              (S.app("helper-div", S.lit(7), S.lit(0)), "DivByZero"),
                              (S.app("helper-ref", S.app("vector", S.lit(1)), S.lit(4)), "IndexRange"),
                              (S.app("helper-call", S.var("cons"), S.lit(1)), "Arity"),
                              (S.app("helper-call", S.lam(["p", "q"], [S.var("p")]), S.lit(1)), "Arity"),
                              (S.app("helper-loop", S.lit(3)), "WrongType"),
                              # faults raised by what a macro's TEMPLATE contributes, in a later repetition of an ellipsis
                              # sub-template (the macros are defined by earlier forms, MACROS)
                              ({"t": "rawtext", "text": "(check-all (< 1 5) (< 20 5) (< 3 5))"}, "Unbound"),
                              ({"t": "rawtext", "text": "(check-all (< 1 5) (< 2 5) (< 30 5))"}, "Unbound"),
                              ({"t": "rawtext", "text": "(call-all 1 2 3)"}, "NonProcedure"),
                              ({"t": "rawtext", "text": "(first-of-all (list 1) (list 2) 3)"}, "WrongType"),
                              # ... and by an identifier or operator the template itself writes, without any ellipsis
                              ({"t": "rawtext", "text": "(kar-of-all (list 1 2))"}, "Unbound"),
                              ({"t": "rawtext", "text": "(+ 1 (kar-of-all (list 1 2)))"}, "Unbound"),
                              ({"t": "rawtext", "text": "(five-of-all 3)"}, "NonProcedure")])
        site = None
    elif kind == "Unbound":
        f, site = S.var(SITE_VAR), SITE_VAR
    elif kind == "UnboundAssign":
        f, site = S.set_(SITE_VAR, S.lit(1)), None          # the statement names identifier/operator for reads and calls; assignment: anywhere in the form
    elif kind == "NonProcedure":
        f, site = S.app(S.lit(int(SITE_OP)), S.lit(1)), SITE_OP
    elif kind == "WrongType":
        f, site = rng.choice([S.app("car", S.lit(5)), S.app("+", S.lit(1), S.lit(True)), S.app("vector-ref", S.quote(S.vsym("v")), S.lit(0))]), None
    elif kind == "DivByZero":
        f, site = S.app("/", S.lit(7), S.lit(0)), None
    elif kind == "IndexRange":
        f, site = S.app("vector-ref", S.app("vector", S.lit(1)), S.lit(3)), None
    elif kind == "Arity":
        f, site = rng.choice([S.app(S.lam(["p"], [S.var("p")]), S.lit(1), S.lit(2)), S.app("cons", S.lit(1))]), None
    else:
        f, site = S.app("vector-set!", S.quote(S.vlit([S.vint(1)])), S.lit(0), S.lit(2)), None
    # calling context, all inside the one form
    for _ in range(rng.randint(0, 3)):
        c = rng.choice(["lambda", "letlambda", "apply", "map", "operand", "let", "letstar", "cond", "case", "when", "and", "or", "begin", "if", "define-internal"])
        if c == "lambda":
            f = S.app(S.lam([], [S.lit(0), f]))
        elif c == "letlambda":
            f = S.let([("thunk", S.lam(["q"], [f]))], [S.app("thunk", S.lit(1))])
        elif c == "apply":
            f = S.app("apply", S.lam(["q"], [f]), S.quote(S.vlist([S.vint(1)])))
        elif c == "map":
            f = S.app(rng.choice(["map", "for-each"]), S.lam(["q"], [f]), S.quote(S.vlist([S.vint(1), S.vint(2)])))
        elif c == "operand":
            f = S.app("list", S.lit(1), f, S.lit(3))
        elif c == "let":
            f = S.let([("q", S.lit(1)), ("r", S.lit(2))], [S.lit(0), f])
        elif c == "letstar":
            f = S.letstar([("q", S.lit(1)), ("r", S.var("q"))], [f])
        elif c == "cond":
            f = S.cond([S.clause(S.lit(False), [S.lit(0)]), S.clause(S.lit(True), [S.lit(1), f])], els=[S.lit(2)])
        elif c == "case":
            f = S.case(S.lit(3), [S.cclause([S.vint(1)], [S.lit(0)]), S.cclause([S.vint(3), S.vint(4)], [f])], els=[S.lit(2)])
        elif c == "when":
            f = S.when(S.lit(True), S.lit(0), f)
        elif c == "and":
            f = S.and_(S.lit(1), f, S.lit(2))
        elif c == "or":
            f = S.or_(S.lit(False), f)
        elif c == "begin":
            f = S.begin(S.lit(0), f)
        elif c == "if":
            f = S.if_(S.lit(True), f, S.lit(0))
        else:
            f = S.app(S.lam(["z"], [S.var("inner")], defs=[("inner", f)]), S.lit(1))
    if rng.random() < 0.2:
        f = S.define("result-of-failing-form", f)
    return f, kind, site


def layout(rng, form_texts):
    """lays the forms out with random line breaks, indentation and comments; -> (text, [extent of each form], token positions)"""
    out = []
    line, col = 1, 1
    extents, positions = [], []

    eol = "\r\n" if rng.random() < 0.3 else "\n"          # a CR before the LF is white space at the end of the line, not a line

    def emit(s):
        nonlocal line, col
        for ch in (s.replace("\n", eol) if eol != "\n" else s):
            out.append(ch)
            if ch == "\n":
                line += 1; col = 1
            else:
                col += 1
    if rng.random() < 0.5:
        emit(rng.choice(["; a program\n", "\n\n", ";; header (with parens)\n;\n", "   "]))
    for t in form_texts:
        toks = tokens_with_depth(t)
        first = None
        for i, tk in enumerate(toks):
            if i > 0:
                prev = toks[i - 1]
                if prev in ("(", "'", "#(") or tk == ")":
                    sep = rng.choice(["", "", "", " ", "\n" + " " * rng.randint(0, 6)])
                else:
                    sep = rng.choice([" ", " ", " ", "  ", "\n" + " " * rng.randint(0, 8), " ; note )(\n" + " " * rng.randint(0, 4), "\t", " ; \u017c\u00f3\u0142w \u2713\n"])
                emit(sep)
            start = (line, col)
            emit(tk)
            end = (line, col - 1)
            positions.append((tk, start, end))
            if first is None:
                first = start
        extents.append([first[0], first[1], end[0], end[1]])
        emit(rng.choice(["\n", "\n", "\n\n", " ; trailing\n", "\n   \n"]))
    return "".join(out), extents, positions


def run_trace(ctx, events, tag, shards=8):
    files = []
    for sh in range(shards):
        part = events[sh::shards]
        path = os.path.join(ctx.dir, "%s.trace%d.ndjson" % (tag, sh))
        with open(path, "w") as f:
            for _, e in part:
                f.write(json.dumps(e, separators=(",", ":")) + "\n")
        files.append((path, part))

    def one(sh):
        return run_tlc("LocTrace.tla", "LocTrace.cfg", ctx.dir, tag="%s.lt%d" % (tag, sh), workers=1, timeout=3000,
                       xss="512m", xmx="3g", env={"TRACE": files[sh][0]}, want_tags=("MISMATCH",))
    bad = []
    with concurrent.futures.ThreadPoolExecutor(max_workers=shards) as ex:
        for sh, tr in enumerate(ex.map(one, range(shards))):
            if not files[sh][1]:
                continue
            done = [m for m in tr.msgs if m[0] == "DONE"]
            if tr.error or tr.violation or not done or done[0][1]["events"] != len(files[sh][1]):
                tail = "".join(open(tr.path, errors="replace").readlines()[-25:])
                raise ToolError("LocTrace shard %d did not consume its trace: %s %s\n%s" % (sh, tr.error, tr.violation, tail))
            ctx.add_tlc(tr, "LocTrace:%s:%d" % (tag, sh))
            for m in tr.vecs:
                bad.append((files[sh][1][m["event"] - 1][0], m["why"]))
    return bad


def input_classes(case):
    out = []
    return out


def run(ctx):
    tier = ctx.tier
    build_harness()
    binp = build_binary()
    rng = random.Random(ctx.seed)
    n = 400 if tier == "quick" else 6000
    cases = []
    for i in range(n):
        pre = []
        g = rng.random()
        if g < 0.7:
            base = G.derived_program(rng, ticks=False) if rng.random() < 0.6 else G.core_program(rng, ticks=False)
            pre = []
            for t in [S.render(f) for f in base][: rng.randint(0, 4)]:
                if len(t) >= 300 or "tick!" in t:
                    break                      # only a PREFIX of a valid program is valid
                pre.append(t)
        if rng.random() < 0.3:
            pre.append("(define-syntax swap-args (syntax-rules () ((swap-args f a b) (f b a))))")
            pre.append("(swap-args - 1 10)")
        if rng.random() < 0.3:
            # tokens that contain line breaks, parentheses and semicolons: later positions depend on counting them right
            pre.insert(rng.randint(0, len(pre)), rng.choice(['(define ml-text "first line\n   second (line ; no comment\n")',
                                                             '(define ml-text (list "a\nb" #\( #\; "\n\n"))',
                                                             '(define ml-text \'("x ; y\n" "(((\n"))']))
        f, kind, site = fault_form(rng)
        pre = HELPERS + pre if "helper-" in S.render(f) else pre
        pre = MACROS + pre if "-all " in S.render(f) else pre
        ftext = S.render(f)
        if rng.random() < 0.25 and not ftext.startswith("(define"):
            # characters that take several bytes, earlier on the line: a column counts characters
            ftext = '(begin "za\u017c\u00f3\u0142\u0107 \u2014 \u65e5\u672c ok" %s)' % ftext
        elif rng.random() < 0.2 and not ftext.startswith("(define"):
            ftext = '(begin "two\nlines (" %s)' % ftext
        texts = ["(import (scheme base) (scheme write))"] + pre + [ftext] + ["(display 'never-reached)"]
        text, extents, positions = layout(rng, texts)
        fidx = 1 + len(pre)
        site_ext = []
        if site is not None:
            hits = [(s, e) for (tk, s, e) in positions if tk == site and (extents[fidx][0], extents[fidx][1]) <= s and e <= (extents[fidx][2], extents[fidx][3])]
            if len(hits) != 1:
                raise ToolError("cannot locate the site token")
            site_ext = [hits[0][0][0], hits[0][0][1], hits[0][1][0], hits[0][1][1]]
        cases.append({"text": text, "form": extents[fidx], "site": site_ext, "kind": kind, "fault": ftext})
    # ---- through the library interface: Interpreter::eval of the whole text
    jobs = [{"id": i, "kind": "session", "steps": [{"op": "new", "i": 0, "stdlib": False, "natives": False}, {"op": "eval", "i": 0, "text": c["text"]}]} for i, c in enumerate(cases)]
    res = run_jobs(jobs, ctx.dir, tag="api", timeout=3000, job_timeout_ms=10000)
    events = []
    progdir = os.path.join(ctx.dir, "progs"); shutil.rmtree(progdir, ignore_errors=True); os.makedirs(progdir)
    for i, (c, r) in enumerate(zip(cases, res)):
        if r.get("skipped") or r.get("timedout") or r.get("crashed"):
            continue
        o = r["results"][1] if len(r["results"]) > 1 else {"k": "notrun"}
        if o.get("k") != "error":
            if o.get("k") == "panic":
                continue     # C07's business
            raise ToolError("the failing form did not fail: %s -> %s" % (c["fault"], json.dumps(o)[:200]))
        expected_kind = {"UnboundAssign": "Unbound"}.get(c["kind"], c["kind"])
        if o.get("kind") != expected_kind:
            raise ToolError("the program failed with %s (%s) instead of the injected %s: %s" % (o.get("kind"), o.get("msg"), c["kind"], c["text"]))
        events.append(((i, "api"), {"text": cps(c["text"]), "form": c["form"], "site": c["site"], "loc": o.get("loc", []), "via": "api"}))
        # ---- and through the command-line driver: FILE:LINE:COL on standard error
        if i % (2 if tier == "quick" else 1) == 0:
            path = os.path.join(progdir, "p%d.scm" % i)
            open(path, "w").write(c["text"])
            p = subprocess.run([binp, path], cwd=ctx.dir, stdout=subprocess.PIPE, stderr=subprocess.PIPE, timeout=60)
            err = strip_ansi(p.stderr.decode(errors="replace"))
            m = re.match(r"^" + re.escape(path) + r":(\d+):(\d+) ", err)
            loc = [int(m.group(1)), int(m.group(2))] if m else []
            events.append(((i, "cli"), {"text": cps(c["text"]), "form": c["form"], "site": c["site"], "loc": loc, "via": "cli"}))
    # ---- syntax errors: a location, when there is one, is at or before the offending token
    ns = 150 if tier == "quick" else 2000
    scases = []
    for i in range(ns):
        base = G.derived_program(rng, ticks=False)
        pre = []
        for t in [S.render(f) for f in base][: rng.randint(0, 3)]:
            if len(t) >= 300:
                break
            pre.append(t)
        bad_tok = rng.choice(["1/0", "12ab", "#q", ")", "1e", "+.", "99999999999", "a'b", "1/", "\"abc"])
        wrapper = rng.choice(["%s", "(list 1 %s", "(define zz (list %s 2))", "'(a %s"]) if bad_tok != ")" else "%s"
        texts = ["(import (scheme base))"] + pre
        text, extents, positions = layout(rng, texts)
        # the offending token is appended by hand so that its position is known
        head = wrapper.split("%s")[0]
        text = text + head
        line = text.count("\n") + 1
        col = len(text) - (text.rfind("\n") + 1) + 1
        text = text + bad_tok + wrapper.split("%s")[1] + rng.choice(["", "\n", " ; x\n"])
        limit = [line, col + len(bad_tok) - 1]
        if bad_tok.startswith("\""):
            # an unterminated string extends to the end of the text
            limit = [text.count("\n") + 1, len(text) - (text.rfind("\n") + 1)]
        scases.append({"text": text, "limit": limit, "token": bad_tok})
    jobs = [{"id": i, "kind": "session", "steps": [{"op": "new", "i": 0, "stdlib": False, "natives": False}, {"op": "eval", "i": 0, "text": c["text"]}]} for i, c in enumerate(scases)]
    res = run_jobs(jobs, ctx.dir, tag="api-syntax", timeout=3000, job_timeout_ms=10000)
    for i, (c, r) in enumerate(zip(scases, res)):
        if r.get("skipped") or r.get("timedout") or r.get("crashed"):
            continue
        o = r["results"][1] if len(r["results"]) > 1 else {"k": "notrun"}
        if o.get("k") != "error" or o.get("kind") != "Syntax":
            continue       # whether the text is rejected is C06's claim; only located syntax errors are judged here
        events.append(((len(cases) + i, "api-syntax"), {"text": cps(c["text"]), "form": [], "site": [], "limit": c["limit"], "loc": o.get("loc", []), "via": "api-syntax"}))
    cases = cases + [{"text": c["text"], "form": c["limit"], "site": [], "kind": "Syntax", "fault": c["token"]} for c in scases]
    shutil.rmtree(progdir, ignore_errors=True)
    for k in range(len(events)):
        events[k][1].setdefault("limit", [])
    bad = run_trace(ctx, events, "loc")
    for (i, via), why in bad:
        c = cases[i]
        if why.startswith("driver"):
            raise ToolError("layout bookkeeping is wrong: %s\n%s\n%s" % (why, c["text"], c["form"]))
        loc = [e for (k, e) in events if k == (i, via)][0]["loc"]
        ctx.violation([{"kind": "input", "value": c["text"]}, {"kind": "input_class", "value": "fault:" + c["kind"] + ":" + via}],
                      "%s error in form %s (extent %s, site %s) reported at %s via %s: %s" % (c["kind"], c["fault"], c["form"], c["site"], loc, via, why),
                      {"stage": "loc", "case": c, "via": via})
    ctx.count(evaluations=len(events), validated=len(events))
    for c in cases:
        ctx.nontrivial_key(c["text"])
    ctx.stage("locations", programs=len(cases), events=len(events), rejected=len(bad))
    ctx.sample({"program": cases[0]["text"], "failing_form_extent": cases[0]["form"], "site_extent": cases[0]["site"]})
    ctx.assumptions += ["a location is a cursor position: from the first character of the extent to one past its last",
                        "the fault is textually inside the failing top-level form (possibly inside procedures and derived forms written in that form)",
                        "for an unbound variable read and for a non-procedure operator the location must be at that token; for the other faults anywhere in the form"]
    return ctx.finish(rule="random programs (valid preceding forms incl. macro definitions and derived forms, then one failing form: 10 fault kinds nested in up to 3 of 15 contexts) laid out with random line breaks, indentation and comments; "
                           "the location reported by Interpreter::eval and by the binary (FILE:LINE:COL) is judged by LocTrace.tla against the extents known from the layout (themselves verified with the specification's reader); non-trivial = distinct program text")


def replay(ctx, case):
    c = case["case"]
    res = run_jobs([{"id": 0, "kind": "session", "steps": [{"op": "new", "i": 0, "stdlib": False, "natives": False}, {"op": "eval", "i": 0, "text": c["text"]}]}], ctx.dir, tag="replay1")[0]
    log(c["text"]); log("failing form extent:", c["form"], "site:", c["site"]); log("reported:", json.dumps(res["results"][1])[:400])
    return 1
