# C06 The reader maps text to the data its tokens denote
import random, itertools
from .common import *
from . import scheme as S, reader as R, gen as G

ALPHABET = "()'#.+-10ae/\"; \n"


def input_classes(text):
    """closed vocabulary of input classes (predicates over the TEXT only) used by known findings"""
    import re
    out = []
    delim = " \t\n\r()\";|"
    if re.search(r'#[tf][^ \t\n\r()";|]', text):
        out.append("boolean-literal-followed-by-non-delimiter")
    if re.search(r'#\\.[^ \t\n\r()";|]', text, re.S):
        out.append("character-literal-followed-by-non-delimiter")
    return out


def sigs(text):
    return [{"kind": "input", "value": text}] + [{"kind": "input_class", "value": c} for c in input_classes(text)]


def report(ctx, texts, bad, what):
    for i, m in bad:
        s = sigs(texts[i])
        for part in (m.get("lex", {}), m.get("read", {})):
            if isinstance(part, dict) and part.get("k") == "panic":
                s.append({"kind": "panic_site", "value": part.get("site") or part.get("kind")})
        ctx.violation(s, "text %r: %s - specification %s; lexer %s; reader %s (%s)" %
                      (texts[i], m["why"], json.dumps(m["spec"])[:300], json.dumps(m["lex"])[:300], json.dumps(m["read"])[:300], what),
                      {"stage": what, "text": texts[i]})


def run(ctx):
    tier = ctx.tier
    build_harness()
    # ---- MC: layout invariance on the specification; the texts it explores are replayed
    r = run_tlc("MCLexer.tla", "MCLexer.cfg", ctx.dir, workers=12, timeout=1200)
    require_clean(r, "MCLexer")
    ctx.add_tlc(r, "MCLexer (layout invariance: pairs of token spellings x separators)")
    texts = sorted({"".join(chr(c) for c in v["text"]) for v in r.vecs})
    lex, reads = R.run_texts(ctx, texts, "layout")
    bad = R.validate_texts(ctx, texts, lex, reads, None, "layout")
    report(ctx, texts, bad, "layout")
    for t in texts:
        ctx.nontrivial_key(t)
    ctx.stage("layout", texts=len(texts), rejected=len(bad), exhaustive=True)
    ctx.sample({"text": texts[len(texts) // 2]})
    # ---- every string up to length 4 (5 thorough) over the 16-character alphabet
    maxlen = 4 if tier == "quick" else 5
    texts = ["".join(p) for n in range(0, maxlen + 1) for p in itertools.product(ALPHABET, repeat=n)]
    lex, reads = R.run_texts(ctx, texts, "short")
    bad = R.validate_texts(ctx, texts, lex, reads, None, "short", shards=12)
    report(ctx, texts, bad, "short-strings")
    for t in texts:
        ctx.nontrivial_key(t)
    ctx.stage("short-strings", alphabet=ALPHABET, maxlen=maxlen, texts=len(texts), rejected=len(bad), exhaustive=True)
    # ---- random datum trees rendered with random layout; the tree is what must come back
    rng = random.Random(ctx.seed)
    n = 400 if tier == "quick" else 6000
    trees = [G.datum_tree(rng, rng.randint(0, 6)) for _ in range(n)]
    texts = [G.render_layout(rng, t) for t in trees]
    wants = [G.want_of(t) for t in trees]
    lex, reads = R.run_texts(ctx, texts, "trees")
    bad = R.validate_texts(ctx, texts, lex, reads, wants, "trees")
    report(ctx, texts, bad, "random-trees")
    for t in texts:
        ctx.nontrivial_key(t)
    ctx.stage("random-trees", trees=n, rejected=len(bad))
    # ---- dotted notation, composed systematically: every head of 1-2 data, every tail shape (atom, (), list, dotted list,
    # vector, quoted datum, string, character), and the malformed neighbours (nothing or two data after the dot, two dots,
    # a dot first) - the specification's reader decides what each denotes
    heads = ["a", "1 2", "(x) #t", "'q"]
    tails = ["b", "()", "(b)", "(b c)", "(b . c)", "(b . ())", "( )", "#()", "#(1)", "'b", "'()", "\"s\"", "#\\)", "5", "-1/2"]
    texts = []
    for h in heads:
        for tl in tails:
            for q in ("'", ""):
                texts += ["%s(%s . %s)" % (q, h, tl), "%s(%s .%s)" % (q, h, tl) if tl[0] in "(\"'#" else "%s(%s . %s )" % (q, h, tl),
                          "%s(%s . %s z)" % (q, h, tl), "%s(%s . %s . z)" % (q, h, tl), "%s((%s . %s) %s)" % (q, h, tl, h), "%s#((%s . %s))" % (q, h, tl)]
    texts += ["'(. a)", "'(a .)", "'(.)", "'( . )", "'(a . . b)", "'(a .. b)", "'(a ... b)", "'(a . b c)", "'#(a . b)", "'(())", "'(() . ())", "'((). ())"]
    texts = sorted(set(texts))
    lex, reads = R.run_texts(ctx, texts, "dotted")
    bad = R.validate_texts(ctx, texts, lex, reads, None, "dotted")
    report(ctx, texts, bad, "dotted-notation")
    for t in texts:
        ctx.nontrivial_key(t)
    ctx.stage("dotted-notation", texts=len(texts), rejected=len(bad), exhaustive=True)
    ctx.sample({"tree_text": texts[0][:300]})
    ctx.assumptions += ["a decimal literal must read as one of the two binary32 neighbours of its exact value (single or double rounding)",
                        "spellings outside the supported grammar (#true, #\\space, #u8(, quasiquotation, \\x escapes, .5, +.a, non-ASCII identifiers) are Unsupported: only C07 applies"]
    return ctx.finish(rule="texts explored by MCLexer (36 token spellings squared x 6 separators), every string up to length 4 over a 16-character alphabet, random datum trees (depth <= 6) with random layout; "
                           "each text goes through Lexer::from_char_stream and eval of the quoted text, and ReaderTrace.tla compares tokens and datum with Lexer.tla/Reader.tla; non-trivial = distinct text")


def replay(ctx, case):
    t = case["text"]
    lex, reads = R.run_texts(ctx, [t], "replay1")
    bad = R.validate_texts(ctx, [t], lex, reads, None, "replay1", shards=1)
    log("text:", repr(t)); log("lexer:", json.dumps(lex[0])[:1000]); log("reader:", json.dumps(reads[0])[:1000])
    report(ctx, [t], bad, "replay")
    return 1 if ctx.nviol else 0
