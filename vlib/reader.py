# shared by C06 / C07 / C16: run texts through the real lexer and the real reader, validate with ReaderTrace.tla
import os, json, concurrent.futures
from .common import *
from . import scheme as S


def conv_token(t):
    k = t["t"]
    if k == "bool":
        return {"t": "bool", "b": t["v"]}
    if k in ("ident", "str", "real"):
        return {"t": k, "cs": t["cs"]}
    if k == "char":
        return {"t": "char", "c": t["c"]}
    if k == "int":
        return {"t": "int", "v": t["v"]}
    if k == "rat":
        return {"t": "rat", "n": t["n"], "d": t["d"]}
    return {"t": k}


def conv_lex(o):
    if o is None:
        return {"k": "skipped"}
    if o.get("k") == "tokens":
        return {"k": "tokens", "toks": [conv_token(t) for t in o["toks"]]}
    if o.get("k") == "lexerror":
        return {"k": "lexerror"}
    return {"k": o.get("k", "?"), "site": o.get("site", "")}


def conv_value(v):
    """harness projection -> the value shape Reader!DatumMatches expects"""
    t = v["t"]
    if t == "list":
        r = conv_value(v["tl"])
        for x in reversed(v["xs"]):
            r = {"t": "pair", "a": conv_value(x), "d": r}
        return r
    if t == "vec":
        return {"t": "vec", "xs": [conv_value(x) for x in v["xs"]]}
    if t == "sym":
        return {"t": "sym", "cs": [ord(c) for c in v["x"]]}
    if t == "bool":
        return {"t": "bool", "b": v["v"]}
    if t == "real":
        return {"t": "real", "s": v["s"], "e": v["e"], "m": v["m"]}
    if t in ("int", "rat", "char", "str", "nil"):
        return {k: v[k] for k in v if k in ("t", "v", "n", "d", "c", "cs")}
    return {"t": t}


def conv_read(o):
    if o is None:
        return {"k": "absent"}
    k = o.get("k")
    if k == "value":
        return {"k": "value", "v": conv_value(o["v"])}
    if k == "error":
        return {"k": "error", "kind": o["kind"]}
    if k == "none":
        return {"k": "none"}
    return {"k": k or "?", "kind": o.get("site", "")}


def run_texts(ctx, texts, tag, with_read=True, chunk=500):
    """texts: list of str. -> (lex results, read results) from the real code"""
    jobs = [{"id": i, "kind": "lex", "text": [ord(c) for c in t]} for i, t in enumerate(texts)]
    lex = run_jobs(jobs, ctx.dir, tag=tag + "-lex", timeout=3000)
    lex = [None if r.get("skipped") else r for r in lex]
    reads = [None] * len(texts)
    if with_read:
        rjobs = []
        for c in range(0, len(texts), chunk):
            steps = [{"op": "new", "i": 0, "natives": False}] + [{"op": "eval", "i": 0, "text": "'" + t} for t in texts[c:c + chunk]]
            rjobs.append({"id": c, "kind": "session", "steps": steps, "continue_after_panic": True})
        rres = run_jobs(rjobs, ctx.dir, tag=tag + "-read", timeout=3000)
        for j, res in zip(rjobs, rres):
            rs = res["results"][1:]
            for k in range(len(j["steps"]) - 1):
                if res.get("skipped"):
                    continue
                reads[j["id"] + k] = rs[k] if k < len(rs) else {"k": "abort" if res.get("crashed") else "notrun"}
    return lex, reads


def validate_texts(ctx, texts, lex, reads, wants, tag, shards=8):
    events = []
    for i, t in enumerate(texts):
        if lex[i] is None:
            continue
        events.append((i, {"text": [ord(c) for c in t], "lex": conv_lex(lex[i]), "read": conv_read(reads[i]),
                           "want": wants[i] if wants and wants[i] is not None else {"t": "none"}}))
    files = []
    for s in range(shards):
        path = os.path.join(ctx.dir, "%s.trace%d.ndjson" % (tag, s))
        part = events[s::shards]
        with open(path, "w") as f:
            for _, e in part:
                f.write(json.dumps(e, separators=(",", ":")) + "\n")
        files.append((path, part))

    def one(s):
        return run_tlc("ReaderTrace.tla", "ReaderTrace.cfg", ctx.dir, tag="%s.rt%d" % (tag, s), workers=1, timeout=3000,
                       xss="512m", xmx="3g", env={"TRACE": files[s][0]}, want_tags=("MISMATCH",))
    bad = []
    with concurrent.futures.ThreadPoolExecutor(max_workers=shards) as ex:
        for s, tr in enumerate(ex.map(one, range(shards))):
            if not files[s][1]:
                continue
            done = [m for m in tr.msgs if m[0] == "DONE"]
            if tr.error or tr.violation or not done or done[0][1]["events"] != len(files[s][1]):
                tail = "".join(open(tr.path, errors="replace").readlines()[-25:])
                raise ToolError("ReaderTrace shard %d did not consume its trace: %s %s\n%s" % (s, tr.error, tr.violation, tail))
            ctx.add_tlc(tr, "ReaderTrace:%s:%d" % (tag, s))
            for m in tr.vecs:
                i = files[s][1][m["event"] - 1][0]
                bad.append((i, m))
    ctx.count(evaluations=len(texts), validated=len(events))
    return bad
